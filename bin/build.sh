#!/bin/bash
# Instrument /repo's current working tree into a scratch overlay and build the
# simulator test binary (plain and, with RACE=1, race-enabled). Usage:
#   build.sh <outdir>
set -u
export GOFLAGS=-mod=mod GOPROXY=off GOSUMDB=off GOTOOLCHAIN=local CGO_ENABLED=${CGO_ENABLED:-1}
OUT=$(realpath -m "${1:?outdir}")
mkdir -p "$OUT"
SCR=$(mktemp -d /tmp/verif-ovl.XXXXXX)
trap 'rm -rf "$SCR"' EXIT
cd /verif/sim || exit 2
cp /repo/go.sum go.sum 2>/dev/null
if [ ! -x /verif/.cache/instr ] || [ /verif/sim/cmd/instr/main.go -nt /verif/.cache/instr ]; then
  mkdir -p /verif/.cache
  go1.26.8 build -o /verif/.cache/instr ./cmd/instr || { echo "BUILD-ERROR instr" >&2; exit 2; }
fi
/verif/.cache/instr -repo "${VERIF_REPO:-/repo}" -as /repo -out "$SCR" -verif /verif/sim/overlay || { echo "BUILD-ERROR instrumenter failed" >&2; exit 2; }
cp "$SCR/instr_report.json" "$OUT/instr_report.json"
go1.26.8 test -c -vet=off -tags verif -overlay "$SCR/overlay.json" -o "$OUT/sim.test" . 2> "$OUT/build.log" || { cat "$OUT/build.log" >&2; echo "BUILD-ERROR sim.test" >&2; exit 2; }
if [ "${RACE:-0}" = "1" ]; then
  go1.26.8 test -c -race -vet=off -tags verif -overlay "$SCR/overlay.json" -o "$OUT/sim.race.test" . 2>> "$OUT/build.log" || { cat "$OUT/build.log" >&2; echo "BUILD-ERROR sim.race.test" >&2; exit 2; }
fi
exit 0
