#!/bin/bash
# Instrument /repo's current working tree into a scratch overlay and build the
# simulator test binary (plain and, with RACE=1, race-enabled). Usage:
#   build.sh <outdir>
set -u
export GOFLAGS=-mod=mod GOPROXY=off GOSUMDB=off GOTOOLCHAIN=local CGO_ENABLED=${CGO_ENABLED:-1}
OUT=$(realpath -m "${1:?outdir}")
mkdir -p "$OUT"
SCR=$(mktemp -d /tmp/verif-ovl.XXXXXX)
trap 'rm -rf "$SCR"' EXIT
cd /verif/sim || exit 2
cp /repo/go.sum go.sum 2>/dev/null
if [ ! -x /verif/.cache/instr ] || [ /verif/sim/cmd/instr/main.go -nt /verif/.cache/instr ]; then
  mkdir -p /verif/.cache
  go1.26.8 build -o /verif/.cache/instr ./cmd/instr || { echo "BUILD-ERROR instr" >&2; exit 2; }
fi
/verif/.cache/instr -repo "${VERIF_REPO:-/repo}" -as /repo -out "$SCR" -verif /verif/sim/overlay || { echo "BUILD-ERROR instrumenter failed" >&2; exit 2; }
cp "$SCR/instr_report.json" "$OUT/instr_report.json"
TAGS=verif
if ! go1.26.8 test -c -vet=off -tags "$TAGS" -overlay "$SCR/overlay.json" -o "$OUT/sim.test" . 2> "$OUT/build.log"; then
  # The accessor files added through the overlay name fields of the library's types
  # (the call registry, the stream table, the proxy's client table). A tree in which
  # those were renamed or turned into other data structures still deserves a verdict:
  # build again with accessors that answer "unknown" (the oracles that need them are skipped).
  if grep -q "verif_access\.go" "$OUT/build.log"; then
    cp "$OUT/build.log" "$OUT/build-full-accessors.log"
    TAGS="verif verif_fallback"
    echo "NOTE: accessor files do not compile against this tree; building with fallback accessors" >> "$OUT/build-full-accessors.log"
    go1.26.8 test -c -vet=off -tags "$TAGS" -overlay "$SCR/overlay.json" -o "$OUT/sim.test" . 2> "$OUT/build.log" || { cat "$OUT/build.log" >&2; echo "BUILD-ERROR sim.test" >&2; exit 2; }
  else
    cat "$OUT/build.log" >&2; echo "BUILD-ERROR sim.test" >&2; exit 2
  fi
fi
if [ "${RACE:-0}" = "1" ]; then
  go1.26.8 test -c -race -vet=off -tags "$TAGS" -overlay "$SCR/overlay.json" -o "$OUT/sim.race.test" . 2>> "$OUT/build.log" || { cat "$OUT/build.log" >&2; echo "BUILD-ERROR sim.race.test" >&2; exit 2; }
fi
exit 0
