package verifsim

import (
	"context"
	"fmt"
	"io"
	"math/rand/v2"
	"strconv"
	"strings"

	"google.golang.org/grpc"
	"google.golang.org/grpc/metadata"
	"google.golang.org/grpc/stats"
	"google.golang.org/grpc/status"
	"google.golang.org/protobuf/types/known/wrapperspb"

	goat "github.com/avos-io/goat"
)

// SideOpts: interceptors and stats handlers of a run (C20).
type SideOpts struct {
	SrvUnary   int  `json:"srv_unary"`  // number of server unary interceptors (0 none)
	SrvStream  int  `json:"srv_stream"` // number of server stream interceptors
	SrvChain   bool `json:"srv_chain"`  // use Chain*Interceptor even for length 1
	SrvSplit   int  `json:"srv_split,omitempty"` // >0 and at least two interceptors: 1 the first through UnaryInterceptor/StreamInterceptor and the rest through one Chain option; k>1 two Chain options, split after (k-1) mod (n-1) + 1
	CliUnary   int  `json:"cli_unary"`  // 0..3 (1 through goat's option, 2..3 composed by the harness)
	CliStream  int  `json:"cli_stream"`
	CliWrap    bool `json:"cli_wrap,omitempty"` // client stream interceptors return a wrapper around the stream
	SrvStats   int  `json:"srv_stats"`
	CliStats   int  `json:"cli_stats"`
	Transform  bool `json:"transform"` // interceptors rewrite request, reply and error
}

func drawSideOpts(g *rand.Rand) SideOpts {
	o := SideOpts{}
	if g.IntN(4) != 0 {
		o.SrvUnary = g.IntN(7)
		o.SrvStream = g.IntN(7)
		o.SrvChain = g.IntN(2) == 0
		if g.IntN(3) == 0 {
			o.SrvSplit = 1 + g.IntN(6)
		}
	}
	o.CliUnary = g.IntN(4)
	o.CliStream = g.IntN(4)
	o.CliWrap = g.IntN(2) == 0
	o.SrvStats = g.IntN(4)
	o.CliStats = g.IntN(4)
	return o
}

type icptEv struct {
	N     int
	Side  byte // 's' / 'c'
	Idx   int
	Enter bool
	Call  int
	Seen  string // x-icpt trail seen on entry
}

type statEv struct {
	N    int
	Kind string // Begin, End, InHeader, ...
	Err  error
	Tag  int
	Client bool // what the event's IsClient() says
	MD     metadata.MD // InHeader / InTrailer: what the event carried
}

type statTag struct {
	Tag    int
	Call   int
	Method string
	Events []statEv
}

type statsObs struct {
	side  byte
	idx   int
	obs   *SideObs
	tags  []*statTag
	conns map[int][]string // conn tag -> events
	connSide []bool        // what each connection event's IsClient() said
	nconn int
}

type tagKey struct {
	side byte
	idx  int
}
type connKey struct {
	side byte
	idx  int
}

// SideObs records what interceptors and stats handlers saw.
type SideObs struct {
	e     *Env
	o     SideOpts
	Icpt  []icptEv
	Stats []*statsObs
}

func newSideObs(e *Env, o SideOpts) *SideObs {
	s := &SideObs{e: e, o: o}
	for i := 0; i < o.SrvStats; i++ {
		s.Stats = append(s.Stats, &statsObs{side: 's', idx: i, obs: s, conns: map[int][]string{}})
	}
	for i := 0; i < o.CliStats; i++ {
		s.Stats = append(s.Stats, &statsObs{side: 'c', idx: i, obs: s, conns: map[int][]string{}})
	}
	return s
}

const icptKey = "x-icpt"

func (s *SideObs) rec(side byte, idx int, enter bool, call int, seen string) {
	n := s.e.Log("icpt", "", call, fmt.Sprintf("%c%d enter=%v", side, idx, enter))
	histMu.Lock()
	s.Icpt = append(s.Icpt, icptEv{N: n, Side: side, Idx: idx, Enter: enter, Call: call, Seen: seen})
	histMu.Unlock()
}

func wrapErr(err error, tag string) error {
	if err == nil {
		return nil
	}
	st, _ := status.FromError(err)
	return status.New(st.Code(), st.Message()+tag).Err()
}

func (s *SideObs) srvUnary(i int) grpc.UnaryServerInterceptor {
	return func(ctx context.Context, req any, info *grpc.UnaryServerInfo, handler grpc.UnaryHandler) (any, error) {
		md, _ := metadata.FromIncomingContext(ctx)
		call, _ := callIDFromCtx(ctx)
		s.rec('s', i, true, call, strings.Join(md.Get(icptKey), ","))
		md = md.Copy()
		md.Append(icptKey, "s"+strconv.Itoa(i))
		ctx = metadata.NewIncomingContext(ctx, md)
		if s.o.Transform {
			if b, ok := req.(*wrapperspb.BytesValue); ok {
				req = wrapperspb.Bytes(append(append([]byte{}, b.GetValue()...), []byte("|s"+strconv.Itoa(i))...))
			}
		}
		resp, err := handler(ctx, req)
		if s.o.Transform {
			if b, ok := resp.(*wrapperspb.BytesValue); ok && err == nil {
				resp = wrapperspb.Bytes(append(append([]byte{}, b.GetValue()...), []byte("|s"+strconv.Itoa(i))...))
			}
			err = wrapErr(err, "|s"+strconv.Itoa(i))
		}
		s.rec('s', i, false, call, "")
		return resp, err
	}
}

type wrappedSS struct {
	grpc.ServerStream
	ctx context.Context
}

func (w *wrappedSS) Context() context.Context { return w.ctx }

func (s *SideObs) srvStream(i int) grpc.StreamServerInterceptor {
	return func(srv any, ss grpc.ServerStream, info *grpc.StreamServerInfo, handler grpc.StreamHandler) error {
		ctx := ss.Context()
		md, _ := metadata.FromIncomingContext(ctx)
		call, _ := callIDFromCtx(ctx)
		s.rec('s', i, true, call, strings.Join(md.Get(icptKey), ","))
		md = md.Copy()
		md.Append(icptKey, "s"+strconv.Itoa(i))
		err := handler(srv, &wrappedSS{ServerStream: ss, ctx: metadata.NewIncomingContext(ctx, md)})
		if s.o.Transform {
			err = wrapErr(err, "|s"+strconv.Itoa(i))
		}
		s.rec('s', i, false, call, "")
		return err
	}
}

func outCall(ctx context.Context) int {
	md, _ := metadata.FromOutgoingContext(ctx)
	if v := md.Get(CallKey); len(v) > 0 {
		id, _ := strconv.Atoi(v[0])
		return id
	}
	return 0
}

func (s *SideObs) cliUnary(i int) grpc.UnaryClientInterceptor {
	return func(ctx context.Context, method string, req, reply any, cc *grpc.ClientConn, invoker grpc.UnaryInvoker, opts ...grpc.CallOption) error {
		md, _ := metadata.FromOutgoingContext(ctx)
		call := outCall(ctx)
		s.rec('c', i, true, call, strings.Join(md.Get(icptKey), ","))
		ctx = metadata.AppendToOutgoingContext(ctx, icptKey, "c"+strconv.Itoa(i))
		if s.o.Transform {
			if b, ok := req.(*wrapperspb.BytesValue); ok {
				req = wrapperspb.Bytes(append(append([]byte{}, b.GetValue()...), []byte("|c"+strconv.Itoa(i))...))
			}
		}
		err := invoker(ctx, method, req, reply, cc, opts...)
		if s.o.Transform {
			if b, ok := reply.(*wrapperspb.BytesValue); ok && err == nil {
				b.Value = append(b.Value, []byte("|c"+strconv.Itoa(i))...)
			}
			err = wrapErr(err, "|c"+strconv.Itoa(i))
		}
		s.rec('c', i, false, call, "")
		return err
	}
}

func (s *SideObs) cliStream(i int) grpc.StreamClientInterceptor {
	return func(ctx context.Context, desc *grpc.StreamDesc, cc *grpc.ClientConn, method string, streamer grpc.Streamer, opts ...grpc.CallOption) (grpc.ClientStream, error) {
		md, _ := metadata.FromOutgoingContext(ctx)
		call := outCall(ctx)
		s.rec('c', i, true, call, strings.Join(md.Get(icptKey), ","))
		ctx = metadata.AppendToOutgoingContext(ctx, icptKey, "c"+strconv.Itoa(i))
		st, err := streamer(ctx, desc, cc, method, opts...)
		s.rec('c', i, false, call, "")
		if err == nil && s.o.CliWrap {
			// what logging / metrics / retry interceptors do: hand back a wrapper
			st = wrappedClientStream{st}
		}
		return st, err
	}
}

// wrappedClientStream hides the concrete stream type, as client interceptors that
// decorate streams do.
type wrappedClientStream struct{ grpc.ClientStream }

// composeUnary chains client interceptors the way grpc.WithChainUnaryInterceptor does.
func composeUnary(ics []grpc.UnaryClientInterceptor) grpc.UnaryClientInterceptor {
	return func(ctx context.Context, method string, req, reply any, cc *grpc.ClientConn, invoker grpc.UnaryInvoker, opts ...grpc.CallOption) error {
		var at func(i int) grpc.UnaryInvoker
		at = func(i int) grpc.UnaryInvoker {
			if i == len(ics) {
				return invoker
			}
			return func(ctx context.Context, method string, req, reply any, cc *grpc.ClientConn, opts ...grpc.CallOption) error {
				return ics[i](ctx, method, req, reply, cc, at(i+1), opts...)
			}
		}
		return at(0)(ctx, method, req, reply, cc, opts...)
	}
}

func composeStream(ics []grpc.StreamClientInterceptor) grpc.StreamClientInterceptor {
	return func(ctx context.Context, desc *grpc.StreamDesc, cc *grpc.ClientConn, method string, streamer grpc.Streamer, opts ...grpc.CallOption) (grpc.ClientStream, error) {
		var at func(i int) grpc.Streamer
		at = func(i int) grpc.Streamer {
			if i == len(ics) {
				return streamer
			}
			return func(ctx context.Context, desc *grpc.StreamDesc, cc *grpc.ClientConn, method string, opts ...grpc.CallOption) (grpc.ClientStream, error) {
				return ics[i](ctx, desc, cc, method, at(i+1), opts...)
			}
		}
		return at(0)(ctx, desc, cc, method, opts...)
	}
}

func (s *SideObs) serverOpts() []goat.ServerOption {
	var out []goat.ServerOption
	o := s.o
	if o.SrvUnary > 0 {
		var ics []grpc.UnaryServerInterceptor
		for i := 0; i < o.SrvUnary; i++ {
			ics = append(ics, s.srvUnary(i))
		}
		if o.SrvUnary == 1 && !o.SrvChain {
			out = append(out, goat.UnaryInterceptor(ics[0]))
		} else if o.SrvSplit == 1 && len(ics) > 1 {
			out = append(out, goat.UnaryInterceptor(ics[0]), goat.ChainUnaryInterceptor(ics[1:]...))
		} else if o.SrvSplit > 1 && len(ics) > 1 {
			k := (o.SrvSplit-1)%(len(ics)-1) + 1
			out = append(out, goat.ChainUnaryInterceptor(ics[:k]...), goat.ChainUnaryInterceptor(ics[k:]...))
		} else {
			out = append(out, goat.ChainUnaryInterceptor(ics...))
		}
	}
	if o.SrvStream > 0 {
		var ics []grpc.StreamServerInterceptor
		for i := 0; i < o.SrvStream; i++ {
			ics = append(ics, s.srvStream(i))
		}
		if o.SrvStream == 1 && !o.SrvChain {
			out = append(out, goat.StreamInterceptor(ics[0]))
		} else if o.SrvSplit == 1 && len(ics) > 1 {
			out = append(out, goat.StreamInterceptor(ics[0]), goat.ChainStreamInterceptor(ics[1:]...))
		} else if o.SrvSplit > 1 && len(ics) > 1 {
			k := (o.SrvSplit-1)%(len(ics)-1) + 1
			out = append(out, goat.ChainStreamInterceptor(ics[:k]...), goat.ChainStreamInterceptor(ics[k:]...))
		} else {
			out = append(out, goat.ChainStreamInterceptor(ics...))
		}
	}
	for _, st := range s.Stats {
		if st.side == 's' {
			out = append(out, goat.StatsHandler(st))
		}
	}
	return out
}

func (s *SideObs) clientOpts(ci int) []goat.DialOption {
	var out []goat.DialOption
	o := s.o
	if o.CliUnary > 0 {
		var ics []grpc.UnaryClientInterceptor
		for i := 0; i < o.CliUnary; i++ {
			ics = append(ics, s.cliUnary(i))
		}
		if len(ics) == 1 {
			out = append(out, goat.WithUnaryInterceptor(ics[0]))
		} else {
			out = append(out, goat.WithUnaryInterceptor(composeUnary(ics)))
		}
	}
	if o.CliStream > 0 {
		var ics []grpc.StreamClientInterceptor
		for i := 0; i < o.CliStream; i++ {
			ics = append(ics, s.cliStream(i))
		}
		if len(ics) == 1 {
			out = append(out, goat.WithStreamInterceptor(ics[0]))
		} else {
			out = append(out, goat.WithStreamInterceptor(composeStream(ics)))
		}
	}
	for _, st := range s.Stats {
		if st.side == 'c' {
			out = append(out, goat.WithStatsHandler(st))
		}
	}
	return out
}

// stats.Handler implementation -------------------------------------------------

type rpcTagKey struct{ h *statsObs }
type connTagKey struct{ h *statsObs }

func (h *statsObs) TagRPC(ctx context.Context, info *stats.RPCTagInfo) context.Context {
	call := 0
	if h.side == 'c' {
		call = outCall(ctx)
	} else {
		call, _ = callIDFromCtx(ctx)
	}
	histMu.Lock()
	t := &statTag{Tag: len(h.tags) + 1, Call: call, Method: info.FullMethodName}
	h.tags = append(h.tags, t)
	histMu.Unlock()
	return context.WithValue(ctx, rpcTagKey{h}, t)
}

func statName(s stats.RPCStats) string {
	switch s.(type) {
	case *stats.Begin:
		return "Begin"
	case *stats.End:
		return "End"
	case *stats.InHeader:
		return "InHeader"
	case *stats.OutHeader:
		return "OutHeader"
	case *stats.InPayload:
		return "InPayload"
	case *stats.OutPayload:
		return "OutPayload"
	case *stats.InTrailer:
		return "InTrailer"
	case *stats.OutTrailer:
		return "OutTrailer"
	}
	return fmt.Sprintf("%T", s)
}

func (h *statsObs) HandleRPC(ctx context.Context, s stats.RPCStats) {
	t, _ := ctx.Value(rpcTagKey{h}).(*statTag)
	name := statName(s)
	var err error
	if e, ok := s.(*stats.End); ok {
		err = e.Error
	}
	var evMD metadata.MD
	switch v := s.(type) {
	case *stats.InHeader:
		evMD = v.Header.Copy()
	case *stats.InTrailer:
		evMD = v.Trailer.Copy()
	}
	n := h.obs.e.NextEv()
	histMu.Lock()
	if t == nil {
		// untagged event: recorded under tag 0
		if len(h.tags) == 0 || h.tags[0].Tag != 0 {
			h.tags = append([]*statTag{{Tag: 0}}, h.tags...)
		}
		t = h.tags[0]
	}
	t.Events = append(t.Events, statEv{N: n, Kind: name, Err: err, Tag: t.Tag, Client: s.IsClient(), MD: evMD})
	histMu.Unlock()
}

func (h *statsObs) TagConn(ctx context.Context, info *stats.ConnTagInfo) context.Context {
	histMu.Lock()
	h.nconn++
	id := h.nconn
	h.conns[id] = nil
	histMu.Unlock()
	return context.WithValue(ctx, connTagKey{h}, id)
}

func (h *statsObs) HandleConn(ctx context.Context, s stats.ConnStats) {
	id, _ := ctx.Value(connTagKey{h}).(int)
	name := "ConnBegin"
	if _, ok := s.(*stats.ConnEnd); ok {
		name = "ConnEnd"
	}
	histMu.Lock()
	h.conns[id] = append(h.conns[id], name)
	h.connSide = append(h.connSide, s.IsClient())
	histMu.Unlock()
}

// ---------------------------------------------------------------------------
// Oracle C20.

func checkSide(run *MixRun) {
	e, sim, obs := run.E, run.Sim, run.Obs
	const prop = "C20"
	o := obs.o
	if o.SrvUnary+o.SrvStream+o.CliUnary+o.CliStream+o.SrvStats+o.CliStats > 0 {
		e.Note("side.configured")
	}
	for _, id := range sim.Order {
		r := sim.Calls[id]
		c := r.Spec
		if !r.Started || !r.Returned {
			continue
		}
		kind := kindNames[c.Kind]
		// interceptors
		nSrv, nCli := o.SrvStream, o.CliStream
		if c.Kind == KUnary {
			nSrv, nCli = o.SrvUnary, o.CliUnary
		}
		var senter, sexit, center, cexit []icptEv
		for _, ev := range obs.Icpt {
			if ev.Call != id {
				continue
			}
			switch {
			case ev.Side == 's' && ev.Enter:
				senter = append(senter, ev)
			case ev.Side == 's':
				sexit = append(sexit, ev)
			case ev.Enter:
				center = append(center, ev)
			default:
				cexit = append(cexit, ev)
			}
		}
		chk := func(side string, n int, enter, exit []icptEv, expectRun bool) {
			if !expectRun {
				return
			}
			base := ""
			if side == "server" {
				// what the client-side interceptors added travels with the request
				for i := 0; i < nCli; i++ {
					if i > 0 {
						base += ","
					}
					base += "c" + strconv.Itoa(i)
				}
			}
			if len(enter) != n {
				e.Violate(prop, "interceptor-count", side+"."+kind, "call %d: %d %s interceptor entries, %d configured", id, len(enter), side, n)
				return
			}
			trail := base
			for i, ev := range enter {
				if ev.Idx != i {
					e.Violate(prop, "interceptor-order", side+"."+kind, "call %d: %s interceptor entry #%d is interceptor %d", id, side, i, ev.Idx)
					return
				}
				if ev.Seen != trail {
					e.Violate(prop, "interceptor-context", side+"."+kind, "call %d: %s interceptor %d saw trail %q, want %q", id, side, i, ev.Seen, trail)
				}
				if trail != "" {
					trail += ","
				}
				trail += side[:1] + strconv.Itoa(i)
			}
			if len(exit) != n {
				e.Violate(prop, "interceptor-exit-count", side+"."+kind, "call %d: %d %s interceptor exits, %d configured", id, len(exit), side, n)
				return
			}
			for i, ev := range exit {
				if ev.Idx != n-1-i {
					e.Violate(prop, "interceptor-exit-order", side+"."+kind, "call %d: %s interceptor exit #%d is interceptor %d", id, side, i, ev.Idx)
					return
				}
			}
		}
		// "per RPC": an RPC exists on the server side once the server has read its
		// first envelope (every request these families send is well formed), whether
		// or not the handler was then reached
		reached := r.HInvoked == 1 || serverReadCall(run.Net, id)
		if reached && r.HInvoked == 0 {
			e.Note("side.server-reached-no-handler")
		}
		chk("client", nCli, center, cexit, true)
		if !run.ClientSideOnly {
			chk("server", nSrv, senter, sexit, reached)
		}
		if r.HInvoked == 1 && nSrv > 0 && !run.ClientSideOnly {
			// the handler observes the context after all transformations
			want := ""
			for i := 0; i < nCli; i++ {
				if i > 0 {
					want += ","
				}
				want += "c" + strconv.Itoa(i)
			}
			for i := 0; i < nSrv; i++ {
				if want != "" {
					want += ","
				}
				want += "s" + strconv.Itoa(i)
			}
			if got := strings.Join(r.HReqMD.Get(icptKey), ","); got != want {
				e.Violate(prop, "handler-context", "server."+kind, "call %d: handler saw interceptor trail %q, want %q", id, got, want)
			}
			e.Note("side.server-chain")
		}
		// stats
		for _, h := range obs.Stats {
			var tags []*statTag
			for _, t := range h.tags {
				if t.Call == id && t.Tag != 0 {
					tags = append(tags, t)
				}
			}
			side := "client"
			succeeded := false
			expect := true
			if h.side == 's' && run.ClientSideOnly {
				continue
			}
			if h.side == 's' {
				side = "server"
				expect = reached
				succeeded = r.HReturned && r.HRetErr == nil
			} else {
				err, ok := callerErr(r)
				succeeded = ok && err == nil
				if c.Kind != KUnary && r.NewStreamErr != nil {
					succeeded = false
				}
			}
			if !expect {
				continue
			}
			site := side + "." + kind
			if len(tags) == 0 {
				// (a stream whose open fails is an RPC too: its interceptors run, and a
				// unary call in the same situation reports Begin and End)
				if h.side == 'c' && c.Kind != KUnary && r.NewStreamErr != nil {
					site += ".failed-open"
				}
				e.Violate(prop, "stats-missing", site, "call %d: %s stats handler %d saw no events (NewStream error: %v)", id, side, h.idx, r.NewStreamErr)
				continue
			}
			if len(tags) > 1 {
				e.Violate(prop, "stats-tagged-twice", site, "call %d: %s stats handler %d: TagRPC called %d times", id, side, h.idx, len(tags))
			}
			evs := tags[0].Events
			nb, ne := 0, 0
			for _, ev := range evs {
				if ev.Client != (h.side == 'c') {
					e.Violate(prop, "stats-wrong-side", site+"."+ev.Kind, "call %d: %s stats handler %d: its %s event says IsClient()=%v", id, side, h.idx, ev.Kind, ev.Client)
					break
				}
			}
			for _, ev := range evs {
				if ev.Kind == "Begin" {
					nb++
				}
				if ev.Kind == "End" {
					ne++
				}
			}
			if nb != 1 || len(evs) == 0 || evs[0].Kind != "Begin" {
				e.Violate(prop, "stats-begin", site, "call %d: %s stats handler %d: %d Begin events, first event %s", id, side, h.idx, nb, firstKind(evs))
			}
			if h.side == 'c' && c.Kind != KUnary && !r.CFinalSet && r.NewStreamErr == nil {
				// stream not driven to its end by the client program: End may legitimately be pending
				continue
			}
			// exactly one End (the statement does not ask for it to be the last
			// event: a CloseSend after the server has finished the stream still
			// reports its OutTrailer)
			if ne != 1 {
				e.Violate(prop, "stats-end", site, "call %d: %s stats handler %d: %d End events (events: %s)", id, side, h.idx, ne, kindsOf(evs))
				continue
			}
			var endErr error
			for _, ev := range evs {
				if ev.Kind == "End" {
					endErr = ev.Err
				}
			}
			if evs[len(evs)-1].Kind != "End" {
				e.Note("side.end-not-last")
			}
			if (endErr == nil) != succeeded {
				esite := site
				endN := 0
				for _, ev := range evs {
					if ev.Kind == "End" {
						endN = ev.N
					}
				}
				if cerr, _ := callerErr(r); h.side == 'c' && endErr == nil && cerr != nil && strings.Contains(cerr.Error(), "cannot parse invalid wire-format") && r.CFinalEv != 0 && endN != 0 && endN < r.CFinalEv {
					// (End was emitted before that RecvMsg returned its verdict; an End emitted
					// after the caller had been handed the decode error is not this finding)
					// the caller's RecvMsg could not decode a message whose envelope the stream's
					// read loop had already passed on, together with the final OK status behind it
					esite += ".undecodable-message-before-ok-status"
				}
				e.Violate(prop, "stats-end-error", esite, "call %d: %s stats handler %d: End.Error=%v but RPC succeeded=%v", id, side, h.idx, endErr, succeeded)
			}
			e.Note("side.stats")
		}
	}
	// untagged events
	for _, h := range obs.Stats {
		for _, t := range h.tags {
			if t.Tag == 0 && len(t.Events) > 0 {
				e.Violate(prop, "stats-untagged", string(h.side), "stats handler %c%d received %d events without the context its TagRPC returned (first: %s)", h.side, h.idx, len(t.Events), t.Events[0].Kind)
			}
		}
	}
}

func firstKind(evs []statEv) string {
	if len(evs) == 0 {
		return "(none)"
	}
	return evs[0].Kind
}

func kindsOf(evs []statEv) string {
	var ks []string
	for _, ev := range evs {
		ks = append(ks, ev.Kind)
	}
	return strings.Join(ks, ",")
}

// checkConnStats: exactly one ConnBegin and one ConnEnd per served connection
// (after the connections have been shut down).
func checkConnStats(run *MixRun) {
	e, obs := run.E, run.Obs
	nServes := 0
	for _, sr := range run.Net.Serves {
		if sr.Returned {
			nServes++
		}
	}
	for _, h := range obs.Stats {
		if h.side != 's' {
			continue
		}
		if len(h.conns) != len(run.Net.Serves) {
			e.Violate("C20", "conn-tag-count", "server", "stats handler s%d: TagConn called %d times for %d Serve calls", h.idx, len(h.conns), len(run.Net.Serves))
		}
		for id, evs := range h.conns {
			if strings.Join(evs, ",") != "ConnBegin,ConnEnd" {
				e.Violate("C20", "conn-events", "server", "stats handler s%d conn %d: events %v, want exactly ConnBegin,ConnEnd", h.idx, id, evs)
			}
		}
	}
	// client side: a ClientConn announces itself to each of its stats handlers when it is
	// created and takes its leave when the application closes it - once each
	for _, cc := range run.Net.CCs {
		cc.Close()
	}
	for _, h := range obs.Stats {
		if h.side == 's' {
			for _, c := range h.connSide {
				if c {
					e.Violate("C20", "stats-wrong-side", "server.conn", "stats handler s%d: a connection event of the server says IsClient()=true", h.idx)
					break
				}
			}
			continue
		}
		nb, ne := 0, 0
		for _, evs := range h.conns {
			for _, ev := range evs {
				if ev == "ConnBegin" {
					nb++
				} else {
					ne++
				}
			}
		}
		if n := len(run.Net.CCs); nb != n || ne != n {
			e.Violate("C20", "conn-events", "client", "stats handler c%d: %d ConnBegin and %d ConnEnd events for %d client connections created and closed", h.idx, nb, ne, n)
		}
		for _, c := range h.connSide {
			if !c {
				e.Violate("C20", "stats-wrong-side", "client.conn", "stats handler c%d: a connection event of the client says IsClient()=false", h.idx)
				break
			}
		}
	}
	_ = io.EOF
}
