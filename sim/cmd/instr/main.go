// Command instr rewrites the non-test Go sources of avos-io/goat so that every
// synchronisation operation is preceded by a call into internal/simhook, and
// writes the rewritten copies plus an overlay.json for `go build -overlay`.
// /repo itself is never modified. See DESIGN.md section 4 for the rules.
//
//	instr -repo /repo -out /tmp/scratch -verif /verif/sim/overlay
package main

import (
	"bytes"
	"encoding/json"
	"flag"
	"fmt"
	"go/ast"
	"go/format"
	"go/parser"
	"go/printer"
	"go/token"
	"os"
	"path/filepath"
	"sort"
	"strconv"
	"strings"
)

const hookPath = "github.com/avos-io/goat/internal/simhook"

type report struct {
	Files        map[string]fileReport `json:"files"`
	Skipped      []string              `json:"skipped"`
	Totals       map[string]int        `json:"totals"`
	CoinSites    []string              `json:"coin_sites"`
	TrackAnchors map[string]bool       `json:"track_anchors"`
}

type fileReport struct {
	Counts map[string]int `json:"counts"`
}

// packages (relative dirs) instrumented
var pkgDirs = []string{".", "internal", "internal/client", "internal/server"}

// R6: range statements over maps in these functions iterate in sorted key
// order (Go's randomised map iteration cannot be seeded).
var sortedRangeFuncs = map[string]string{
	"server.go:cancelAndWaitForStreams":         "h.streams",
	"internal/client/multiplexer.go:closeError": "rm.handlers",
	"internal/util.go:ToKeyValue":               "metadata.Join(mds...)",
	"http.go:connectionCleaner":                 "goh.conns.value",
}

func exprString(e ast.Expr) string {
	var b bytes.Buffer
	printer.Fprint(&b, token.NewFileSet(), e)
	return b.String()
}

// R5: wrap the single return expression of these functions.
var trackFuncs = map[string]string{
	"server.go:newHandler":                          "server.handler",
	"proxy.go:NewProxy":                             "proxy",
	"demux.go:NewDemux":                             "demux",
	"internal/client/multiplexer.go:NewRpcMultiplexer": "client.mux",
	"http.go:NewGoatOverHttp":                       "http",
}

func main() {
	repo := flag.String("repo", "/repo", "goat working tree")
	out := flag.String("out", "", "scratch output directory")
	verif := flag.String("verif", "/verif/sim/overlay", "directory with files to add")
	as := flag.String("as", "", "path the module is compiled as (overlay keys); default: -repo. With -as /repo -repo /tmp/x the tree in /tmp/x is compiled in place of /repo")
	flag.Parse()
	if *as == "" {
		*as = *repo
	}
	if *out == "" {
		fmt.Fprintln(os.Stderr, "instr: -out required")
		os.Exit(2)
	}
	rep := report{Files: map[string]fileReport{}, Totals: map[string]int{}, TrackAnchors: map[string]bool{}}
	overlay := map[string]string{}

	for _, d := range pkgDirs {
		dir := filepath.Join(*repo, d)
		ents, err := os.ReadDir(dir)
		if err != nil {
			fmt.Fprintln(os.Stderr, "instr:", err)
			os.Exit(2)
		}
		for _, e := range ents {
			n := e.Name()
			if e.IsDir() || !strings.HasSuffix(n, ".go") || strings.HasSuffix(n, "_test.go") {
				continue
			}
			rel := filepath.ToSlash(filepath.Join(d, n))
			src := filepath.Join(dir, n)
			data, err := os.ReadFile(src)
			if err != nil {
				fmt.Fprintln(os.Stderr, "instr:", err)
				os.Exit(2)
			}
			res, fr, err := instrument(rel, data, &rep)
			if err != nil {
				rep.Skipped = append(rep.Skipped, rel+": "+err.Error())
				continue
			}
			if res == nil {
				if *as != *repo {
					overlay[filepath.Join(*as, rel)] = src // unchanged file of the substituted tree
				}
				continue // nothing to rewrite
			}
			dst := filepath.Join(*out, rel)
			os.MkdirAll(filepath.Dir(dst), 0o755)
			if err := os.WriteFile(dst, res, 0o644); err != nil {
				fmt.Fprintln(os.Stderr, "instr:", err)
				os.Exit(2)
			}
			overlay[filepath.Join(*as, rel)] = dst
			rep.Files[rel] = fr
			for k, v := range fr.Counts {
				rep.Totals[k] += v
			}
		}
	}
	// Added files: simhook package and per-package accessor files.
	addDir := func(srcDir, dstDir string) {
		ents, err := os.ReadDir(srcDir)
		if err != nil {
			return
		}
		for _, e := range ents {
			if e.IsDir() || !strings.HasSuffix(e.Name(), ".go") {
				continue
			}
			overlay[filepath.Join(dstDir, e.Name())] = filepath.Join(srcDir, e.Name())
		}
	}
	addDir(filepath.Join(*verif, "simhook"), filepath.Join(*as, "internal", "simhook"))
	addDir(filepath.Join(*verif, "goat"), *as)
	addDir(filepath.Join(*verif, "client"), filepath.Join(*as, "internal", "client"))
	addDir(filepath.Join(*verif, "server"), filepath.Join(*as, "internal", "server"))

	ov, _ := json.MarshalIndent(map[string]any{"Replace": overlay}, "", " ")
	if err := os.WriteFile(filepath.Join(*out, "overlay.json"), ov, 0o644); err != nil {
		fmt.Fprintln(os.Stderr, "instr:", err)
		os.Exit(2)
	}
	sort.Strings(rep.Skipped)
	rj, _ := json.MarshalIndent(rep, "", " ")
	os.WriteFile(filepath.Join(*out, "instr_report.json"), rj, 0o644)
}

type ctx struct {
	rel      string
	fset     *token.FileSet
	counts   map[string]int
	ords     map[string]int // per func+kind ordinal
	funcName string
	selN     int
	used     bool
	rep      *report
	resultFn map[*ast.BlockStmt]bool
	inFunc   map[ast.Node]string // list holder -> enclosing func name
	nonMap   map[string]bool     // struct fields of this file whose declared type is not a map
}

func (c *ctx) site(kind string) string {
	k := c.funcName + ":" + kind
	n := c.ords[k]
	c.ords[k] = n + 1
	c.counts[kind]++
	c.used = true
	return fmt.Sprintf("%s:%s:%s#%d", c.rel, c.funcName, kind, n)
}

func hookCall(fn string, args ...ast.Expr) *ast.CallExpr {
	return &ast.CallExpr{
		Fun:  &ast.SelectorExpr{X: ast.NewIdent("simhook"), Sel: ast.NewIdent(fn)},
		Args: args,
	}
}

func strLit(s string) ast.Expr { return &ast.BasicLit{Kind: token.STRING, Value: strconv.Quote(s)} }
func intLit(n int) ast.Expr    { return &ast.BasicLit{Kind: token.INT, Value: strconv.Itoa(n)} }

func hookStmt(fn string, args ...ast.Expr) ast.Stmt { return &ast.ExprStmt{X: hookCall(fn, args...)} }

func addrOf(e ast.Expr) ast.Expr { return &ast.UnaryExpr{Op: token.AND, X: e} }

func instrument(rel string, data []byte, rep *report) ([]byte, fileReport, error) {
	fset := token.NewFileSet()
	f, err := parser.ParseFile(fset, rel, data, 0) // comments dropped on purpose
	if err != nil {
		return nil, fileReport{}, err
	}
	if strings.Contains(string(data[:min(len(data), 400)]), "Code generated") {
		return nil, fileReport{}, nil
	}
	c := &ctx{rel: rel, fset: fset, counts: map[string]int{}, ords: map[string]int{}, rep: rep,
		resultFn: map[*ast.BlockStmt]bool{}, inFunc: map[ast.Node]string{}}

	// R6 is keyed by file, function and expression; a tree in which the ranged field is
	// no longer a map (a registry turned into a slice, say) keeps its ordinary range
	c.nonMap = map[string]bool{}
	ast.Inspect(f, func(n ast.Node) bool {
		if st, ok := n.(*ast.StructType); ok && st.Fields != nil {
			for _, fl := range st.Fields.List {
				if _, isMap := fl.Type.(*ast.MapType); !isMap {
					for _, nm := range fl.Names {
						c.nonMap[nm.Name] = true
					}
				} else {
					for _, nm := range fl.Names {
						delete(c.nonMap, nm.Name)
					}
				}
			}
		}
		return true
	})
	for _, d := range f.Decls {
		fd, ok := d.(*ast.FuncDecl)
		if !ok || fd.Body == nil {
			continue
		}
		c.funcName = fd.Name.Name
		c.processFunc(fd)
	}
	if !c.used {
		return nil, fileReport{}, nil
	}
	addImport(f)
	var buf bytes.Buffer
	cfg := printer.Config{Mode: printer.UseSpaces | printer.TabIndent, Tabwidth: 8}
	if err := cfg.Fprint(&buf, fset, f); err != nil {
		return nil, fileReport{}, err
	}
	outb := buf.Bytes()
	if fm, err := format.Source(outb); err == nil {
		outb = fm
	} else {
		return nil, fileReport{}, fmt.Errorf("rewritten file does not parse: %v", err)
	}
	hdr := "//line-directives: none; generated by /verif/sim/cmd/instr from " + rel + "\n"
	return append([]byte(hdr), outb...), fileReport{Counts: c.counts}, nil
}

func addImport(f *ast.File) {
	spec := &ast.ImportSpec{Path: &ast.BasicLit{Kind: token.STRING, Value: strconv.Quote(hookPath)}}
	for _, d := range f.Decls {
		if gd, ok := d.(*ast.GenDecl); ok && gd.Tok == token.IMPORT {
			gd.Specs = append(gd.Specs, spec)
			if !gd.Lparen.IsValid() {
				gd.Lparen = gd.Pos()
				gd.Rparen = gd.End()
			}
			f.Imports = append(f.Imports, spec)
			return
		}
	}
	gd := &ast.GenDecl{Tok: token.IMPORT, Specs: []ast.Spec{spec}}
	f.Decls = append([]ast.Decl{gd}, f.Decls...)
	f.Imports = append(f.Imports, spec)
}

// listHolder abstracts nodes that own a statement list.
type listHolder struct {
	node ast.Node
	get  func() []ast.Stmt
	set  func([]ast.Stmt)
}

func (c *ctx) processFunc(fd *ast.FuncDecl) {
	// R5 first (operates on the original return statement).
	if kind, ok := trackFuncs[c.rel+":"+fd.Name.Name]; ok {
		n := 0
		ast.Inspect(fd.Body, func(x ast.Node) bool {
			if _, isLit := x.(*ast.FuncLit); isLit {
				return false
			}
			if rs, ok := x.(*ast.ReturnStmt); ok && len(rs.Results) == 1 {
				rs.Results[0] = &ast.CallExpr{
					Fun:  &ast.IndexExpr{X: &ast.SelectorExpr{X: ast.NewIdent("simhook"), Sel: ast.NewIdent("TrackRet")}, Index: nil},
					Args: []ast.Expr{strLit(kind), rs.Results[0]},
				}
				// generic call without explicit instantiation
				rs.Results[0].(*ast.CallExpr).Fun = &ast.SelectorExpr{X: ast.NewIdent("simhook"), Sel: ast.NewIdent("TrackRet")}
				n++
			}
			return true
		})
		if n > 0 {
			c.counts["track"] += n
			c.used = true
			c.rep.TrackAnchors[kind] = true
		}
	}

	// Collect list holders in pre-order; mark function bodies with results.
	var holders []listHolder
	if fd.Type.Results != nil && len(fd.Type.Results.List) > 0 {
		c.resultFn[fd.Body] = true
	}
	ast.Inspect(fd.Body, func(x ast.Node) bool {
		switch n := x.(type) {
		case *ast.FuncLit:
			if n.Type.Results != nil && len(n.Type.Results.List) > 0 {
				c.resultFn[n.Body] = true
			}
		case *ast.BlockStmt:
			nn := n
			holders = append(holders, listHolder{n, func() []ast.Stmt { return nn.List }, func(l []ast.Stmt) { nn.List = l }})
		case *ast.CaseClause:
			nn := n
			holders = append(holders, listHolder{n, func() []ast.Stmt { return nn.Body }, func(l []ast.Stmt) { nn.Body = l }})
		case *ast.CommClause:
			nn := n
			holders = append(holders, listHolder{n, func() []ast.Stmt { return nn.Body }, func(l []ast.Stmt) { nn.Body = l }})
		}
		return true
	})
	// Reverse pre-order: inner lists are rewritten before the lists that
	// contain them (R2b duplicates clause bodies by reference).
	for i := len(holders) - 1; i >= 0; i-- {
		h := holders[i]
		h.set(c.rewriteList(h.node, h.get()))
	}
}

func isMethodCall(e ast.Expr, names ...string) (recv ast.Expr, name string, call *ast.CallExpr, ok bool) {
	ce, ok1 := e.(*ast.CallExpr)
	if !ok1 {
		return nil, "", nil, false
	}
	se, ok2 := ce.Fun.(*ast.SelectorExpr)
	if !ok2 {
		return nil, "", nil, false
	}
	for _, n := range names {
		if se.Sel.Name == n {
			return se.X, n, ce, true
		}
	}
	return nil, "", nil, false
}

func calleeName(ce *ast.CallExpr) string {
	switch f := ce.Fun.(type) {
	case *ast.Ident:
		return f.Name
	case *ast.SelectorExpr:
		return f.Sel.Name
	}
	return ""
}

func isCancelish(name string) bool {
	l := strings.ToLower(name)
	return strings.Contains(l, "cancel") || l == "teardown" || name == "Stop"
}

// containsAtomic reports whether the expressions of a simple statement call
// sync/atomic (package functions or atomic.Int64-style Load/Store).
func containsAtomic(n ast.Node) bool {
	found := false
	ast.Inspect(n, func(x ast.Node) bool {
		switch v := x.(type) {
		case *ast.FuncLit, *ast.BlockStmt:
			return false
		case *ast.CallExpr:
			if se, ok := v.Fun.(*ast.SelectorExpr); ok {
				if id, ok := se.X.(*ast.Ident); ok && id.Name == "atomic" {
					found = true
				}
				switch se.Sel.Name {
				case "Load", "Store", "CompareAndSwap", "Swap":
					if len(v.Args) <= 2 {
						found = true
					}
				}
			}
		}
		return !found
	})
	return found
}

func isRecv(e ast.Expr) bool {
	if p, ok := e.(*ast.ParenExpr); ok {
		return isRecv(p.X)
	}
	u, ok := e.(*ast.UnaryExpr)
	return ok && u.Op == token.ARROW
}

func (c *ctx) rewriteList(holder ast.Node, list []ast.Stmt) []ast.Stmt {
	out := make([]ast.Stmt, 0, len(list)+4)
	terminalResult := false
	if b, ok := holder.(*ast.BlockStmt); ok && c.resultFn[b] {
		terminalResult = true
	}
	for idx, s := range list {
		last := idx == len(list)-1
		switch st := s.(type) {
		case *ast.ExprStmt:
			if recv, name, _, ok := isMethodCall(st.X, "Lock", "Unlock", "RLock", "RUnlock"); ok && len(st.X.(*ast.CallExpr).Args) == 0 {
				switch name {
				case "Lock":
					out = append(out, hookStmt("Acquire", strLit(c.site("lock")), addrOf(recv)), s, hookStmt("Own", addrOf(recv)))
				case "RLock":
					out = append(out, hookStmt("RAcquire", strLit(c.site("rlock")), addrOf(recv)), s, hookStmt("ROwn", addrOf(recv)))
				case "Unlock":
					c.counts["unlock"]++
					out = append(out, s, hookStmt("Release", addrOf(recv)))
				case "RUnlock":
					c.counts["unlock"]++
					out = append(out, s, hookStmt("RRelease", addrOf(recv)))
				}
				continue
			}
			if isRecv(st.X) {
				out = append(out, hookStmt("Yield", strLit(c.site("recv"))), s)
				continue
			}
			if ce, ok := st.X.(*ast.CallExpr); ok {
				name := calleeName(ce)
				if id, ok := ce.Fun.(*ast.Ident); ok && id.Name == "close" && len(ce.Args) == 1 {
					out = append(out, hookStmt("Yield", strLit(c.site("close"))), s)
					continue
				}
				if _, _, _, ok := isMethodCall(st.X, "Wait", "Done"); ok && len(ce.Args) == 0 {
					out = append(out, hookStmt("Yield", strLit(c.site("wg"))), s)
					continue
				}
				// errgroup-style X.Go(func() error {...})
				if _, _, _, ok := isMethodCall(st.X, "Go"); ok && len(ce.Args) == 1 {
					if fl, ok := ce.Args[0].(*ast.FuncLit); ok {
						site := c.site("adopt")
						hv := ast.NewIdent(fmt.Sprintf("_sh%d", c.next()))
						fl.Body.List = append([]ast.Stmt{
							&ast.DeferStmt{Call: &ast.CallExpr{Fun: hookCall("Adopt", hv)}},
						}, fl.Body.List...)
						out = append(out, &ast.BlockStmt{List: []ast.Stmt{
							&ast.AssignStmt{Lhs: []ast.Expr{hv}, Tok: token.DEFINE, Rhs: []ast.Expr{hookCall("Prepare", strLit(site))}},
							s,
						}})
						continue
					}
				}
				if isCancelish(name) {
					out = append(out, hookStmt("Yield", strLit(c.site("cancel"))), s)
					continue
				}
			}
			if containsAtomic(st.X) {
				out = append(out, hookStmt("Yield", strLit(c.site("atomic"))), s)
				continue
			}
			out = append(out, s)

		case *ast.DeferStmt:
			if recv, name, _, ok := isMethodCall(st.Call, "Unlock", "RUnlock"); ok && len(st.Call.Args) == 0 {
				c.counts["unlock"]++
				c.used = true
				rel := "Release"
				if name == "RUnlock" {
					rel = "RRelease"
				}
				// LIFO: the real Unlock (registered last) runs first.
				out = append(out, &ast.DeferStmt{Call: hookCall(rel, addrOf(recv))}, s)
				continue
			}
			if isCancelish(calleeName(st.Call)) {
				// LIFO: Yield (registered last) runs first, then the cancel.
				out = append(out, s, &ast.DeferStmt{Call: hookCall("Yield", strLit(c.site("cancel")))})
				continue
			}
			out = append(out, s)

		case *ast.SendStmt:
			out = append(out, hookStmt("Yield", strLit(c.site("send"))), s)

		case *ast.AssignStmt:
			if len(st.Rhs) == 1 && isRecv(st.Rhs[0]) {
				out = append(out, hookStmt("Yield", strLit(c.site("recv"))), s)
				continue
			}
			atomicHit := false
			for _, r := range st.Rhs {
				if containsAtomic(r) {
					atomicHit = true
				}
			}
			if atomicHit {
				out = append(out, hookStmt("Yield", strLit(c.site("atomic"))), s)
				continue
			}
			out = append(out, s)

		case *ast.IfStmt:
			if st.Cond != nil && containsAtomic(st.Cond) {
				out = append(out, hookStmt("Yield", strLit(c.site("atomic"))), s)
				continue
			}
			out = append(out, s)

		case *ast.ReturnStmt:
			hit := false
			for _, r := range st.Results {
				if containsAtomic(r) {
					hit = true
				}
			}
			if hit {
				out = append(out, hookStmt("Yield", strLit(c.site("atomic"))), s)
				continue
			}
			out = append(out, s)

		case *ast.DeclStmt:
			if containsAtomic(st) {
				out = append(out, hookStmt("Yield", strLit(c.site("atomic"))), s)
				continue
			}
			out = append(out, s)

		case *ast.SwitchStmt:
			if (st.Tag != nil && containsAtomic(st.Tag)) || (st.Init != nil && containsAtomic(st.Init)) {
				out = append(out, hookStmt("Yield", strLit(c.site("atomic"))), s)
				continue
			}
			out = append(out, s)

		case *ast.GoStmt:
			out = append(out, c.rewriteGo(st))

		case *ast.RangeStmt:
			if want, ok := sortedRangeFuncs[c.rel+":"+c.funcName]; ok && exprString(st.X) == want && !c.rangesNonMapField(st.X) {
				out = append(out, c.rewriteRange(st))
				continue
			}
			out = append(out, s)

		case *ast.SelectStmt:
			out = append(out, c.rewriteSelect(st, terminalResult && last)...)

		default:
			out = append(out, s)
		}
	}
	return out
}

func (c *ctx) next() int { c.selN++; return c.selN }

// rangesNonMapField: the ranged expression selects a struct field that this file declares
// with a type other than a map.
func (c *ctx) rangesNonMapField(e ast.Expr) bool {
	if se, ok := e.(*ast.SelectorExpr); ok {
		return c.nonMap[se.Sel.Name]
	}
	return false
}

func isBlank(e ast.Expr) bool {
	id, ok := e.(*ast.Ident)
	return e == nil || (ok && id.Name == "_")
}

// rewriteRange: for K, V := range M {B}  =>  { m := M; for _, k := range simhook.RangeKeys(site, m) { K := k; V := m[k]; B } }
// (the keys come sorted and are then permuted by the run's seeded scheduler: map iteration order is one more scheduling choice)
func (c *ctx) rewriteRange(rs *ast.RangeStmt) ast.Stmt {
	c.counts["range_sorted"]++
	c.used = true
	n := c.next()
	mv := ast.NewIdent(fmt.Sprintf("_rm%d", n))
	kv := ast.NewIdent(fmt.Sprintf("_rk%d", n))
	tok := rs.Tok
	if tok != token.DEFINE && tok != token.ASSIGN {
		tok = token.DEFINE
	}
	var pre []ast.Stmt
	if !isBlank(rs.Key) {
		pre = append(pre, &ast.AssignStmt{Lhs: []ast.Expr{rs.Key}, Tok: tok, Rhs: []ast.Expr{kv}})
		if tok == token.DEFINE {
			pre = append(pre, &ast.AssignStmt{Lhs: []ast.Expr{ast.NewIdent("_")}, Tok: token.ASSIGN, Rhs: []ast.Expr{rs.Key}})
		}
	}
	if !isBlank(rs.Value) {
		pre = append(pre, &ast.AssignStmt{Lhs: []ast.Expr{rs.Value}, Tok: tok, Rhs: []ast.Expr{&ast.IndexExpr{X: mv, Index: kv}}})
		if tok == token.DEFINE {
			pre = append(pre, &ast.AssignStmt{Lhs: []ast.Expr{ast.NewIdent("_")}, Tok: token.ASSIGN, Rhs: []ast.Expr{rs.Value}})
		}
	}
	body := &ast.BlockStmt{List: append(pre, rs.Body.List...)}
	loop := &ast.RangeStmt{Key: ast.NewIdent("_"), Value: kv, Tok: token.DEFINE, X: hookCall("RangeKeys", strLit(c.site("range")), mv), Body: body}
	return &ast.BlockStmt{List: []ast.Stmt{
		&ast.AssignStmt{Lhs: []ast.Expr{mv}, Tok: token.DEFINE, Rhs: []ast.Expr{rs.X}},
		loop,
	}}
}

func (c *ctx) rewriteGo(g *ast.GoStmt) ast.Stmt {
	site := c.site("go")
	call := g.Call
	if fl, ok := call.Fun.(*ast.FuncLit); ok && len(call.Args) == 0 && (fl.Type.Results == nil || len(fl.Type.Results.List) == 0) {
		return hookStmt("Go", strLit(site), fl)
	}
	// Evaluate function value and arguments now, as the go statement does.
	n := c.next()
	var pre []ast.Stmt
	fv := ast.NewIdent(fmt.Sprintf("_gf%d", n))
	pre = append(pre, &ast.AssignStmt{Lhs: []ast.Expr{fv}, Tok: token.DEFINE, Rhs: []ast.Expr{call.Fun}})
	var args []ast.Expr
	for i, a := range call.Args {
		av := ast.NewIdent(fmt.Sprintf("_ga%d_%d", n, i))
		pre = append(pre, &ast.AssignStmt{Lhs: []ast.Expr{av}, Tok: token.DEFINE, Rhs: []ast.Expr{a}})
		args = append(args, av)
	}
	inner := &ast.CallExpr{Fun: fv, Args: args, Ellipsis: call.Ellipsis}
	if call.Ellipsis.IsValid() {
		inner.Ellipsis = token.Pos(1)
	}
	body := &ast.FuncLit{
		Type: &ast.FuncType{Params: &ast.FieldList{}},
		Body: &ast.BlockStmt{List: []ast.Stmt{&ast.ExprStmt{X: inner}}},
	}
	pre = append(pre, hookStmt("Go", strLit(site), body))
	return &ast.BlockStmt{List: pre}
}

// pure reports whether re-evaluating e has no side effects that matter:
// identifiers, selectors, index expressions, composite literals, the
// receive operator's operand, and calls of the known accessor methods
// Done() / Chan() / Context(), and time.Now().
func pure(e ast.Expr) bool {
	switch v := e.(type) {
	case nil:
		return true
	case *ast.Ident, *ast.BasicLit:
		return true
	case *ast.SelectorExpr:
		return pure(v.X)
	case *ast.ParenExpr:
		return pure(v.X)
	case *ast.StarExpr:
		return pure(v.X)
	case *ast.IndexExpr:
		return pure(v.X) && pure(v.Index)
	case *ast.UnaryExpr:
		return pure(v.X)
	case *ast.CompositeLit:
		for _, el := range v.Elts {
			if kv, ok := el.(*ast.KeyValueExpr); ok {
				if !pure(kv.Value) {
					return false
				}
			} else if !pure(el) {
				return false
			}
		}
		return true
	case *ast.CallExpr:
		if se, ok := v.Fun.(*ast.SelectorExpr); ok && len(v.Args) == 0 {
			if se.Sel.Name == "Done" || se.Sel.Name == "Chan" || se.Sel.Name == "Context" {
				// Context(): the accessor of *http.Request and of gRPC streams
				return pure(se.X)
			}
			if id, ok := se.X.(*ast.Ident); ok && id.Name == "time" && se.Sel.Name == "Now" {
				// reads the (fake) clock, which does not move while a task polls
				return true
			}
		}
		return false
	}
	return false
}

func commPure(s ast.Stmt) bool {
	switch v := s.(type) {
	case *ast.SendStmt:
		return pure(v.Chan) && pure(v.Value)
	case *ast.ExprStmt:
		return pure(v.X)
	case *ast.AssignStmt:
		for _, r := range v.Rhs {
			if !pure(r) {
				return false
			}
		}
		return true
	}
	return false
}

func hasLabelUse(n ast.Node) bool {
	found := false
	ast.Inspect(n, func(x ast.Node) bool {
		if _, ok := x.(*ast.LabeledStmt); ok {
			found = true
		}
		return !found
	})
	return found
}

func (c *ctx) rewriteSelect(sel *ast.SelectStmt, terminal bool) []ast.Stmt {
	site := c.site("select")
	var clauses []*ast.CommClause
	hasDefault := false
	for _, s := range sel.Body.List {
		cc := s.(*ast.CommClause)
		clauses = append(clauses, cc)
		if cc.Comm == nil {
			hasDefault = true
		}
	}
	// Event probes: which branch was taken.
	for i, cc := range clauses {
		tag := strconv.Itoa(i)
		if cc.Comm == nil {
			tag = "default"
		}
		cc.Body = append([]ast.Stmt{hookStmt("Event", strLit(site+":"+tag))}, cc.Body...)
	}
	yield := hookStmt("Yield", strLit(site))
	n := len(clauses)
	eligible := !hasDefault && n >= 2
	if eligible {
		for _, cc := range clauses {
			if !commPure(cc.Comm) || hasLabelUse(cc) {
				eligible = false
			}
		}
	}
	if !eligible {
		if !hasDefault && n >= 2 {
			c.rep.CoinSites = append(c.rep.CoinSites, site)
		}
		return []ast.Stmt{yield, sel}
	}
	c.counts["select_seeded"]++
	k := c.next()
	ov := ast.NewIdent(fmt.Sprintf("_so%d", k))
	dv := ast.NewIdent(fmt.Sprintf("_sd%d", k))
	stmts := []ast.Stmt{
		&ast.AssignStmt{Lhs: []ast.Expr{ov}, Tok: token.DEFINE, Rhs: []ast.Expr{hookCall("Order", strLit(site), intLit(n))}},
		&ast.AssignStmt{Lhs: []ast.Expr{dv}, Tok: token.DEFINE, Rhs: []ast.Expr{ast.NewIdent("false")}},
	}
	setDone := func() ast.Stmt {
		return &ast.AssignStmt{Lhs: []ast.Expr{dv}, Tok: token.ASSIGN, Rhs: []ast.Expr{ast.NewIdent("true")}}
	}
	for p := 0; p < n; p++ {
		var cases []ast.Stmt
		for i, cc := range clauses {
			poll := &ast.SelectStmt{Body: &ast.BlockStmt{List: []ast.Stmt{
				&ast.CommClause{Comm: cc.Comm, Body: append([]ast.Stmt{setDone()}, cc.Body...)},
				&ast.CommClause{Comm: nil, Body: nil},
			}}}
			cases = append(cases, &ast.CaseClause{List: []ast.Expr{intLit(i)}, Body: []ast.Stmt{poll}})
		}
		sw := &ast.SwitchStmt{
			Tag:  &ast.IndexExpr{X: ov, Index: intLit(p)},
			Body: &ast.BlockStmt{List: cases},
		}
		cond := &ast.BinaryExpr{
			X:  &ast.UnaryExpr{Op: token.NOT, X: dv},
			Op: token.LAND,
			Y:  &ast.BinaryExpr{X: &ast.CallExpr{Fun: ast.NewIdent("len"), Args: []ast.Expr{ov}}, Op: token.GTR, Y: intLit(p)},
		}
		stmts = append(stmts, &ast.IfStmt{Cond: cond, Body: &ast.BlockStmt{List: []ast.Stmt{sw}}})
	}
	stmts = append(stmts, &ast.IfStmt{
		Cond: &ast.UnaryExpr{Op: token.NOT, X: dv},
		Body: &ast.BlockStmt{List: []ast.Stmt{sel}},
	})
	out := []ast.Stmt{yield, &ast.BlockStmt{List: stmts}}
	if terminal {
		out = append(out, &ast.ExprStmt{X: &ast.CallExpr{Fun: ast.NewIdent("panic"), Args: []ast.Expr{strLit("simhook: unreachable")}}})
	}
	return out
}
