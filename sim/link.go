package verifsim

import (
	"context"
	"errors"
	"fmt"
	"io"
	"net"
	"sync"

	"github.com/avos-io/goat/gen/goatorepo"
	"google.golang.org/protobuf/proto"
)

var histMu sync.Mutex

type Rpc = goatorepo.Rpc

// TapEv is one envelope as it was written on a link.
type TapEv struct {
	N    int  // global event number
	Rpc  *Rpc // deep copy taken at write time
	Orig *Rpc // the very pointer written (identity checks on by-reference links)
	Lost bool // accepted by a link whose reading side had failed
	Withdrawn bool // rendezvous write given up on its context before anyone read it: it never reached the peer
}

// LinkCfg are the per-link draws (DESIGN 3.3).
type LinkCfg struct {
	Cap       int  // -1 unbounded, 0 rendezvous, k>0 buffered(k)
	Serialise bool // marshal+unmarshal instead of handing the pointer over
	Strict    bool // a done context fails Read/Write even if data could move
}

func (c LinkCfg) String() string {
	s := "byref"
	if c.Serialise {
		s = "ser"
	}
	d := "racy"
	if c.Strict {
		d = "strict"
	}
	return fmt.Sprintf("%s/cap%d/%s", s, c.Cap, d)
}

type pendingWrite struct {
	rpc  *Rpc
	done chan struct{} // closed when the envelope was read (rendezvous) or the write failed
	err  error         // set before done is closed when the write failed
}

// Link is one direction of a connection.
type Link struct {
	env  *Env
	Name string
	Cfg  LinkCfg
	// PreWriteYield: a scheduling point at the entry of every write, so that the
	// scheduler can place other tasks between a sender's last check and the moment
	// its envelope reaches the transport (set by families that look at that window)
	PreWriteYield bool
	// AmbiguousCancel: a write whose context ends while the envelope is under way
	// reports the context's error although the envelope was delivered (what a
	// request/response transport does when the acknowledgement is cut off: the
	// library's HTTP POST). A failed write then says nothing about delivery.
	AmbiguousCancel bool
	RefusedOpens    []uint64 // ids of header-only envelopes a strict link refused for a done context
	failedReads     int      // reads attempted after the read side had failed
	ambigUsed       bool     // AmbiguousCancel: the one delivered-but-failed write has happened

	mu       sync.Mutex
	inflight []*pendingWrite
	arrived  []*pendingWrite
	readers  []chan struct{}
	spaceW   []chan struct{}
	readErr  error
	writeErr error
	stalled  bool
	aborted  bool
	nWritten int
	nAttempts int
	nRead    int
	nReadBase int // nRead when the tap was last cleared (long histories)
	Tap      []TapEv

	// hooks, called with l.mu released
	onWritten []func(n int, rpc *Rpc) // after the n-th envelope (1-based) was accepted
	onRead    []func(n int, rpc *Rpc) // after the n-th envelope was handed to Read
	// NoTap: do not keep copies of what is written (very long histories).
	NoTap bool
	// WriteFault, if set, may return an error for this write before any effect.
	WriteFault func(n int, rpc *Rpc) error
}

var ErrLinkClosed = errors.New("sim: link closed")
var ErrInjected = errors.New("sim: injected transport failure")

// InjectedErr returns one of the errors real transports report when a
// connection ends (a clean close is io.EOF for framed pipes, wrapped or not).
const NumInjectedErrs = 9

func InjectedErr(k int) error {
	switch k % NumInjectedErrs {
	case 6:
		// a transport with a session context of its own reports that context's end
		return context.Canceled
	case 7:
		return fmt.Errorf("session closed: %w", context.Canceled)
	case 8:
		return context.DeadlineExceeded
	case 0:
		return ErrInjected
	case 1:
		return io.EOF
	case 2:
		return io.ErrUnexpectedEOF
	case 3:
		return fmt.Errorf("read tcp 10.0.0.1:443: %w", io.EOF)
	case 4:
		return net.ErrClosed
	default:
		return errors.New("connection reset by peer")
	}
}

func (e *Env) NewLink(name string, cfg LinkCfg) *Link {
	if e.Free {
		// free-running mode: writes never block on the transport (a blocked
		// write under a goat lock plus a timer would stall the bubble's clock)
		cfg.Cap = -1
	}
	l := &Link{env: e, Name: name, Cfg: cfg}
	e.links = append(e.links, l)
	return l
}

// OnWritten registers a hook after each accepted write.
func (l *Link) OnWritten(f func(n int, rpc *Rpc)) { l.onWritten = append(l.onWritten, f) }

// OnRead registers a hook after each envelope handed to a reader.
func (l *Link) OnRead(f func(n int, rpc *Rpc)) { l.onRead = append(l.onRead, f) }

func (l *Link) canDeliver() bool {
	l.mu.Lock()
	defer l.mu.Unlock()
	if l.stalled || l.aborted || len(l.inflight) == 0 || l.readErr != nil {
		return false
	}
	if l.Cfg.Cap == 0 && len(l.arrived) > 0 {
		return false
	}
	return true
}

// deliver moves the head of the in-flight queue to the receive buffer.
func (l *Link) deliver() {
	l.mu.Lock()
	if len(l.inflight) == 0 {
		l.mu.Unlock()
		return
	}
	pw := l.inflight[0]
	l.inflight = l.inflight[1:]
	l.arrived = append(l.arrived, pw)
	rs := l.readers
	l.readers = nil
	l.mu.Unlock()
	for _, r := range rs {
		close(r)
	}
}

// Stall / Unstall disable and enable deliveries (slow or stuck peer).
func (l *Link) Stall()   { l.mu.Lock(); l.stalled = true; l.mu.Unlock() }
func (l *Link) Unstall() {
	l.mu.Lock()
	l.stalled = false
	n := len(l.inflight)
	free := l.env.Free
	l.mu.Unlock()
	if free {
		for i := 0; i < n; i++ {
			l.deliver()
		}
	}
}

// Pending returns the number of envelopes written but not yet read.
func (l *Link) Pending() int {
	l.mu.Lock()
	defer l.mu.Unlock()
	return len(l.inflight) + len(l.arrived)
}

// Written returns the number of envelopes accepted so far.
func (l *Link) Written() int { l.mu.Lock(); defer l.mu.Unlock(); return l.nWritten }

// Attempts returns the number of Write calls made on the link so far (including failed ones).
func (l *Link) Attempts() int { l.mu.Lock(); defer l.mu.Unlock(); return l.nAttempts }

// ReadCount returns the number of envelopes handed to readers so far.
func (l *Link) ReadCount() int { l.mu.Lock(); defer l.mu.Unlock(); return l.nRead }

// FailRead makes the reading side fail now and forever; queued envelopes are lost.
// FailedReads: how many Read calls have reported the injected read failure so far.
func (l *Link) FailedReads() int {
	l.mu.Lock()
	defer l.mu.Unlock()
	return l.failedReads
}

// Heal ends an injected failure: the same transport object works again (a transport
// that reconnects underneath, or whose failed call was a one-off).
func (l *Link) Heal() {
	l.mu.Lock()
	l.readErr, l.writeErr = nil, nil
	l.failedReads = 0
	l.mu.Unlock()
}

func (l *Link) FailRead(err error) {
	l.mu.Lock()
	l.readErr = err
	// what was written but not read is lost; writers blocked on it return (the
	// data went nowhere), and later writes are accepted and dropped unless the
	// write side is failed too
	for _, pw := range append(append([]*pendingWrite{}, l.inflight...), l.arrived...) {
		select {
		case <-pw.done:
		default:
			close(pw.done)
		}
	}
	l.inflight, l.arrived = nil, nil
	rs := l.readers
	l.readers = nil
	ws := l.spaceW
	l.spaceW = nil
	l.mu.Unlock()
	for _, r := range rs {
		close(r)
	}
	for _, w := range ws {
		close(w)
	}
}

// FailWrite makes writes fail now and forever.
func (l *Link) FailWrite(err error) {
	l.mu.Lock()
	l.writeErr = err
	// writes still in flight (accepted, not delivered) fail with the connection;
	// a writer blocked in a rendezvous write gets the error
	for _, pw := range l.inflight {
		select {
		case <-pw.done:
		default:
			pw.err = err
			close(pw.done)
		}
	}
	l.inflight = nil
	// a rendezvous writer whose envelope sits unread in the peer's receive
	// buffer is still blocked in Write: a broken connection ends that Write too
	for _, pw := range l.arrived {
		select {
		case <-pw.done:
		default:
			pw.err = err
			close(pw.done)
		}
	}
	ws := l.spaceW
	l.spaceW = nil
	l.mu.Unlock()
	for _, w := range ws {
		close(w)
	}
}

func (l *Link) abort() {
	l.mu.Lock()
	l.aborted = true
	if l.readErr == nil {
		l.readErr = ErrLinkClosed
	}
	if l.writeErr == nil {
		l.writeErr = ErrLinkClosed
	}
	rs := l.readers
	l.readers = nil
	ws := l.spaceW
	l.spaceW = nil
	pend := append(l.inflight, l.arrived...)
	l.inflight, l.arrived = nil, nil
	l.mu.Unlock()
	for _, r := range rs {
		close(r)
	}
	for _, w := range ws {
		close(w)
	}
	for _, p := range pend {
		select {
		case <-p.done:
		default:
			close(p.done)
		}
	}
}

func (l *Link) read(ctx context.Context) (*Rpc, error) {
	for {
		l.mu.Lock()
		if l.readErr != nil {
			err := l.readErr
			l.failedReads++
			spinning := l.failedReads == 200
			l.mu.Unlock()
			if spinning {
				// a reader that comes back for more two hundred times after the transport's
				// read side has failed is not going to notice: a busy loop in the code under
				// test (it has no scheduling point, so without this the run would hang)
				l.env.Violate("C09", "read-failure-ignored", "transport.Read", "the transport's Read has failed (%v) and was called again 200 times: the reader ignores the failure and spins", err)
				l.env.Violate("C10", "read-failure-ignored", "transport.Read", "the transport's Read has failed (%v) and was called again 200 times: the reader ignores the failure and spins", err)
				l.env.Violate("C19", "read-failure-ignored", "transport.Read", "the transport's Read has failed (%v) and was called again 200 times: the reader ignores the failure and spins", err)
				<-l.env.tornDown() // park the spinner for the rest of the run
			}
			return nil, err
		}
		if (l.Cfg.Strict || (l.AmbiguousCancel && l.ambigUsed)) && ctx.Err() != nil {
			l.mu.Unlock()
			return nil, ctx.Err()
		}
		if len(l.arrived) > 0 {
			pw := l.arrived[0]
			l.arrived = l.arrived[1:]
			l.nRead++
			n := l.nRead
			ws := l.spaceW
			l.spaceW = nil
			hooks := l.onRead
			l.mu.Unlock()
			select {
			case <-pw.done:
			default:
				close(pw.done)
			}
			for _, w := range ws {
				close(w)
			}
			for _, h := range hooks {
				h(n, pw.rpc)
			}
			return pw.rpc, nil
		}
		w := make(chan struct{})
		l.readers = append(l.readers, w)
		l.mu.Unlock()
		select {
		case <-w:
		case <-ctx.Done():
			l.mu.Lock()
			for i, r := range l.readers {
				if r == w {
					l.readers = append(l.readers[:i], l.readers[i+1:]...)
					break
				}
			}
			l.mu.Unlock()
			return nil, ctx.Err()
		}
	}
}

func cloneRpc(r *Rpc) *Rpc {
	if r == nil {
		return nil
	}
	return proto.Clone(r).(*Rpc)
}

func (l *Link) write(ctx context.Context, rpc *Rpc) error {
	if l.PreWriteYield && !l.env.Free {
		l.env.Pt("link.write")
	}
	l.mu.Lock()
	l.nAttempts++
	l.mu.Unlock()
	for {
		l.mu.Lock()
		if l.writeErr != nil {
			err := l.writeErr
			l.mu.Unlock()
			return err
		}
		if l.Cfg.Strict && ctx.Err() != nil {
			if rpc.GetHeader() != nil && rpc.GetBody() == nil && rpc.GetTrailer() == nil && rpc.GetReset_() == nil {
				// an open the transport refused because its context was done: the
				// sender did try to open the stream (the wire rules look at this)
				l.RefusedOpens = append(l.RefusedOpens, rpc.GetId())
			}
			l.mu.Unlock()
			return ctx.Err()
		}
		if l.readErr != nil {
			// the reading side is gone: the transport still accepts data, which goes nowhere
			l.nWritten++
			l.Tap = append(l.Tap, TapEv{N: l.env.NextEv(), Rpc: cloneRpc(rpc), Orig: rpc, Lost: true})
			l.mu.Unlock()
			return nil
		}
		if l.Cfg.Cap > 0 && len(l.inflight)+len(l.arrived) >= l.Cfg.Cap {
			w := make(chan struct{})
			l.spaceW = append(l.spaceW, w)
			l.mu.Unlock()
			select {
			case <-w:
				continue
			case <-ctx.Done():
				if rpc.GetHeader() != nil && rpc.GetBody() == nil && rpc.GetTrailer() == nil && rpc.GetReset_() == nil {
					l.mu.Lock()
					l.RefusedOpens = append(l.RefusedOpens, rpc.GetId())
					l.mu.Unlock()
				}
				return ctx.Err()
			}
		}
		break
	}
	// l.mu held
	if l.WriteFault != nil {
		if err := l.WriteFault(l.nWritten+1, rpc); err != nil {
			l.mu.Unlock()
			return err
		}
	}
	l.nWritten++
	n := l.nWritten
	carried := rpc
	if l.Cfg.Serialise {
		b, err := proto.Marshal(rpc)
		if err != nil {
			l.mu.Unlock()
			return err
		}
		carried = &Rpc{}
		if err := proto.Unmarshal(b, carried); err != nil {
			l.mu.Unlock()
			return err
		}
	}
	if !l.NoTap {
		l.Tap = append(l.Tap, TapEv{N: l.env.NextEv(), Rpc: cloneRpc(rpc), Orig: rpc})
	}
	pw := &pendingWrite{rpc: carried, done: make(chan struct{})}
	l.inflight = append(l.inflight, pw)
	// AmbiguousCancel, deterministic form: the first write that starts with its context
	// already done goes out all the same and is reported as failed with the context's
	// error (the request left, the caller saw its context end first); later such writes
	// are refused like on any transport that looks at the context.
	ambigNow := l.AmbiguousCancel && !l.ambigUsed && ctx.Err() != nil
	if ambigNow {
		l.ambigUsed = true
	}
	hooks := l.onWritten
	free := l.env.Free && !l.stalled
	l.mu.Unlock()
	for _, h := range hooks {
		h(n, rpc)
	}
	if free {
		l.deliver()
	}
	if ambigNow {
		l.env.Note("link.delivered-but-write-failed")
		return ctx.Err()
	}
	if l.Cfg.Cap == 0 {
		// rendezvous: return only once the envelope was read
		select {
		case <-pw.done:
			return pw.err
		case <-ctx.Done():
			l.mu.Lock()
			for i, p := range l.inflight {
				if p == pw {
					l.inflight = append(l.inflight[:i], l.inflight[i+1:]...)
					// withdrawn: it never reaches the peer. Keep the tap entry but mark it.
					for ti := len(l.Tap) - 1; ti >= 0; ti-- {
						if l.Tap[ti].Orig == rpc {
							l.Tap[ti].Withdrawn = true
							break
						}
					}
					l.mu.Unlock()
					return ctx.Err()
				}
			}
			l.mu.Unlock()
			if l.AmbiguousCancel {
				l.env.Note("link.delivered-but-write-failed")
				return ctx.Err()
			}
			return nil // already delivered
		}
	}
	if l.AmbiguousCancel && ctx.Err() != nil {
		l.env.Note("link.delivered-but-write-failed")
		return ctx.Err()
	}
	return nil
}

// End is one side of a connection: reads from In, writes to Out.
type End struct {
	In, Out *Link
}

func (e *End) Read(ctx context.Context) (*Rpc, error) { return e.In.read(ctx) }
func (e *End) Write(ctx context.Context, r *Rpc) error { return e.Out.write(ctx, r) }

// NewConn creates a bidirectional connection a<->b and returns both ends.
func (e *Env) NewConn(name string, ab, ba LinkCfg) (a, b *End) {
	l1 := e.NewLink(name+">", ab)
	l2 := e.NewLink(name+"<", ba)
	return &End{In: l2, Out: l1}, &End{In: l1, Out: l2}
}

// DrawLinkCfg draws link parameters from the scenario PRNG.
func (e *Env) DrawLinkCfg() LinkCfg {
	c := LinkCfg{}
	switch e.Gen.IntN(4) {
	case 0:
		c.Cap = 0
	case 1:
		c.Cap = 1 + e.Gen.IntN(4)
	default:
		c.Cap = -1
	}
	c.Serialise = e.Gen.IntN(2) == 0
	c.Strict = e.Gen.IntN(2) == 0
	return c
}

// ReadEnvelopes returns copies of the envelopes that were handed to the
// link's reader so far (the link is FIFO: the first nRead tap entries that
// were neither withdrawn nor lost).
func (l *Link) ReadEnvelopes() []*Rpc {
	l.mu.Lock()
	defer l.mu.Unlock()
	var out []*Rpc
	for _, tp := range l.Tap {
		if len(out) >= l.nRead-l.nReadBase {
			break
		}
		if tp.Withdrawn || tp.Lost {
			continue
		}
		out = append(out, tp.Rpc)
	}
	return out
}

// serverReadCall: did any Serve of the net read an envelope that carries the call's tag?
func serverReadCall(n *Net, id int) bool {
	if n == nil {
		return false
	}
	for _, sr := range n.Serves {
		if sr == nil || sr.ServerEnd == nil {
			continue
		}
		for _, r := range sr.ServerEnd.In.ReadEnvelopes() {
			if callOfEnvelope(r) == id {
				return true
			}
		}
	}
	return false
}

// ClearTap forgets the recorded envelopes (long histories); call only at a quiescent point.
func (l *Link) ClearTap() {
	l.mu.Lock()
	l.Tap = l.Tap[:0]
	l.nReadBase = l.nRead
	l.mu.Unlock()
}
