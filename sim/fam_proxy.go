package verifsim

import (
	"context"
	"fmt"
	"math/rand/v2"
	"sort"
	"strings"

	"github.com/avos-io/goat/gen/goatorepo"
	"google.golang.org/protobuf/proto"

	goat "github.com/avos-io/goat"
)

// Raw peers around a real Proxy (C16 raw, C17).

type PeerSpec struct {
	Name   string `json:"name"`
	Dial   bool   `json:"dial"`    // not pre-attached: dialled on demand through the NewConnection callback
	DialErr bool  `json:"dial_err"` // the dial fails
	Role   int    `json:"role"`    // 0 healthy, 1 stuck writer (never reads), 2 failing reader, 3 failing writer, 4 closed connection (reads and writes fail together)
	Late   bool   `json:"late"`    // attached by a harness task while traffic addressed to it is already flowing
	DialHold bool `json:"dial_hold,omitempty"` // the dial returns only when the driver lets it (after the role-fault point, or after the proxy was cancelled)
}

type PEnv struct {
	From  int    `json:"from"`           // index of the sending peer
	To    string `json:"to"`             // destination name as written by the sender
	Spoof int    `json:"spoof,omitempty"` // 1: source differs from the sender's name, 2: no header
	Next  string `json:"next,omitempty"`  // proxy_next entry (route), if any
	EmptyNext bool `json:"empty_next,omitempty"` // proxy_next present but empty (what a previous hop leaves behind after consuming a one-element route)
	Rec   int    `json:"rec,omitempty"`        // entries the sender put into proxy_record itself (an envelope that claims to have travelled)
	Shape int    `json:"shape,omitempty"` // 0 body, 1 body+trailer+status, 2 body+reset (what the proxy forwards must not depend on it)
}

type ProxyParams struct {
	Links     []LinkCfg  `json:"links"`
	Peers     []PeerSpec `json:"peers"`
	Envs      []PEnv     `json:"envs"`
	Icpt      int        `json:"icpt"`       // 0 none, 1 identity, 2 alias->first server, 3 reject names ending in x
	Credit    int        `json:"credit"`     // max envelopes outstanding per destination (0: unlimited)
	ErrKind   int        `json:"err_kind,omitempty"` // which error the failing link reports (InjectedErr)
	FailAt    int        `json:"fail_at"`    // role faults fire after this many envelopes were sent
	Reattach  int        `json:"reattach"`   // 0 no, 1 re-attach the bad peer's name before its old connection fails, 2 after
	CancelAt  int        `json:"cancel_at"`  // >0: cancel the proxy's context after this many driver steps of traffic
	NoCallback bool      `json:"no_callback,omitempty"` // the proxy is built without a disconnect callback (the parameter is optional)
	SameConn  bool       `json:"same_conn,omitempty"` // the re-attached connection is the SAME transport object, working again after the read that failed
	Hostile   bool       `json:"hostile"`
}

const proxyName = "px"

func genProxyRaw(hostile bool) func(g *rand.Rand, tier string) any {
	return func(g *rand.Rand, tier string) any {
		p := &ProxyParams{Hostile: hostile, Credit: 12}
		nc := 1 + g.IntN(8)
		ns := 1 + g.IntN(4)
		if hostile {
			nc, ns = 2, 1
		}
		for i := 0; i < nc; i++ {
			p.Peers = append(p.Peers, PeerSpec{Name: fmt.Sprintf("c%d", i)})
		}
		for i := 0; i < ns; i++ {
			ps := PeerSpec{Name: fmt.Sprintf("s%d", i)}
			if !hostile && g.IntN(3) == 0 {
				ps.Dial = true
				ps.DialErr = g.IntN(5) == 0
			} else if !hostile && g.IntN(3) == 0 {
				ps.Late = true
			}
			p.Peers = append(p.Peers, ps)
		}
		p.Links = drawLinks(g, 2*len(p.Peers)+4)
		for i := range p.Links {
			if g.IntN(2) == 0 {
				p.Links[i].Cap = -1
			}
		}
		p.Icpt = g.IntN(4)
		if hostile {
			// third peer with a role
			bad := PeerSpec{Name: "bad", Role: 1 + g.IntN(4)}
			switch g.IntN(6) {
			case 0:
				bad.Role, bad.Dial, bad.DialErr = 0, true, true
			case 1:
				bad.Role, bad.Dial = 0, true // slow dial
				bad.DialHold = g.IntN(2) == 0
			case 2:
				bad.Dial = true // dialled on demand, then its connection fails (role 2 or 3)
				if bad.Role == 1 {
					bad.Role = 2
				}
			}
			p.Peers = append(p.Peers, bad)
			p.Reattach = g.IntN(5) // 3: concurrently with the handling of the old connection's failure; 4: by the disconnect callback itself (reconnect on disconnect)
			if bad.Dial {
				p.Reattach = 0
			}
			if p.Reattach >= 2 && bad.Role == 2 && g.IntN(3) == 0 {
				p.SameConn = true
			}
			if g.IntN(6) == 0 {
				p.NoCallback = true
				if p.Reattach == 4 {
					p.Reattach = 3
				}
			}
			if g.IntN(3) == 0 {
				p.CancelAt = 1 + g.IntN(120)
			}
		}
		names := []string{}
		for _, ps := range p.Peers {
			names = append(names, ps.Name)
		}
		extra := []string{"alias", "nobodyx", "ghost"}
		n := 1 + g.IntN(40)
		for i := 0; i < n; i++ {
			ev := PEnv{From: g.IntN(len(p.Peers))}
			if p.Peers[ev.From].Dial {
				// a dialled peer has no writer task until it is dialled; let clients talk
				ev.From = g.IntN(nc)
			}
			if g.IntN(8) == 0 {
				ev.To = extra[g.IntN(len(extra))]
			} else {
				ev.To = names[g.IntN(len(names))]
			}
			if !hostile && g.IntN(12) == 0 {
				ev.Next = names[g.IntN(len(names))]
			}
			if hostile {
				// traffic between the two healthy clients and the server, some to the bad peer
				ev.From = g.IntN(3)
				ev.To = []string{"c0", "c1", "s0", "bad"}[g.IntN(4)]
				if g.IntN(6) == 0 {
					ev.Spoof = 1 + g.IntN(2)
				}
			}
			if g.IntN(4) == 0 {
				ev.Shape = 1 + g.IntN(2)
			}
			if ev.Next == "" && g.IntN(8) == 0 {
				ev.EmptyNext = true
			}
			if g.IntN(8) == 0 || (ev.Spoof == 1 && g.IntN(2) == 0) {
				ev.Rec = 1 + g.IntN(2)
			}
			p.Envs = append(p.Envs, ev)
		}
		if hostile && len(p.Peers) == 4 && p.Peers[3].Role == 1 && g.IntN(2) == 0 {
			// a stuck peer with a long backlog: more than the proxy's 16-slot
			// buffer, ending in stream-terminating envelopes, mixed with traffic
			// between the healthy peers
			k := 18 + g.IntN(12)
			for i := 0; i < k; i++ {
				ev := PEnv{From: g.IntN(2), To: "bad"}
				if i >= 16 || g.IntN(5) == 0 {
					ev.Shape = 1 + g.IntN(2)
				}
				p.Envs = append(p.Envs, ev)
				if g.IntN(2) == 0 {
					p.Envs = append(p.Envs, PEnv{From: g.IntN(3), To: []string{"c0", "c1", "s0"}[g.IntN(3)]})
				}
			}
			n = len(p.Envs)
		}
		p.FailAt = g.IntN(n + 1)
		p.ErrKind = g.IntN(NumInjectedErrs)
		return p
	}
}

type rawPeer struct {
	spec    PeerSpec
	first   *End // peer side of the first connection (the one role faults hit)
	firstPx *End // proxy side of the first connection
	end     *End // peer side
	pxEnd   *End // proxy side
	gen     int  // connection generation (re-attach)
}

func envKey(r *Rpc) string {
	return string(r.GetBody().GetData())
}

func execProxyRaw(e *Env, pp any) {
	p := pp.(*ProxyParams)
	if len(p.Peers) == 0 {
		return
	}
	nextCfg := 0
	cfg := func() LinkCfg {
		if nextCfg < len(p.Links) {
			c := p.Links[nextCfg]
			nextCfg++
			return c
		}
		return LinkCfg{Cap: -1}
	}
	pctx, pcancel := context.WithCancel(context.Background())
	e.OnTeardown(pcancel)
	peers := map[string]*rawPeer{}
	var order []string
	var disconnects []string
	rctx, rcancel := context.WithCancel(context.Background())
	e.OnTeardown(rcancel)
	// every proxy->peer link, by peer name and generation
	type tapRef struct {
		name string
		gen  int
		l    *Link
	}
	var taps []tapRef
	startReader := func(rp *rawPeer, gen int) {
		end := rp.end
		if rp.spec.Role == 1 && gen == 0 {
			end.In.Stall() // stuck: the proxy's writes to it never complete
			return
		}
		e.Go(fmt.Sprintf("peer.%s.reader%d", rp.spec.Name, gen), func() {
			for {
				if _, err := end.Read(rctx); err != nil {
					return
				}
			}
		})
	}
	mkConn := func(name string, gen int) (*End, *End) {
		a, b := e.NewConn(fmt.Sprintf("%s.%d", name, gen), cfg(), cfg())
		// a: peer side (Out = peer->proxy, In = proxy->peer); b: proxy side
		taps = append(taps, tapRef{name, gen, a.In})
		return a, b
	}
	dialable := map[string]*PeerSpec{}
	for i := range p.Peers {
		ps := p.Peers[i]
		if ps.Name == "" || peers[ps.Name] != nil {
			continue
		}
		rp := &rawPeer{spec: ps}
		peers[ps.Name] = rp
		order = append(order, ps.Name)
		if ps.Dial {
			dialable[ps.Name] = &p.Peers[i]
		}
	}
	icpt := goat.RpcIntercepter(nil)
	firstServer := ""
	for _, n := range order {
		if strings.HasPrefix(n, "s") {
			firstServer = n
			break
		}
	}
	rewrite := func(dst string) (string, bool) {
		switch p.Icpt {
		case 2:
			if dst == "alias" && firstServer != "" {
				return firstServer, true
			}
		case 3:
			if strings.HasSuffix(dst, "x") {
				return dst, false
			}
		}
		return dst, true
	}
	if p.Icpt != 0 {
		icpt = func(h *goatorepo.RequestHeader) error {
			d, ok := rewrite(h.Destination)
			if !ok {
				return fmt.Errorf("rejected")
			}
			h.Destination = d
			return nil
		}
	}
	dials := map[string]int{}
	dialFails := map[string]int{}
	dialGate := make(chan struct{})
	dialReleased := false
	releaseDial := func() {
		if !dialReleased {
			dialReleased = true
			close(dialGate)
		}
	}
	dialDoneEv := map[string]int{} // "<name>.<gen>" -> event number at which the dial callback returned
	var releaseFn func(n string, r *Rpc)
	maybeSent := map[string]int{}
	attachedEv := map[string]int{} // late peers: event count when AddClient had returned
	reattachedInCb := false
	var reattachFromCallback func()
	onDisc := func(id string, reason error) {
		histMu.Lock()
		disconnects = append(disconnects, id)
		first := id == "bad" && !reattachedInCb
		if first {
			reattachedInCb = true
		}
		histMu.Unlock()
		e.Pt("disconnect.cb") // the callback takes a while: other tasks may run meanwhile
		if first && p.Reattach == 4 && reattachFromCallback != nil {
			// reconnect on disconnect: the application attaches the peer's new connection
			// before its callback returns
			reattachFromCallback()
		}
	}
	if p.NoCallback {
		onDisc = nil
		e.Note("config.proxy.no-disconnect-callback")
	}
	px := goat.NewProxy(pctx, proxyName, func(id string) (goat.RpcReadWriter, error) {
		// runs on a goat goroutine (proxyClient.connect)
		e.Pt("dial")
		e.Note("dial")
		histMu.Lock()
		dials[id]++
		histMu.Unlock()
		ps := dialable[id]
		if ps == nil || ps.DialErr {
			e.Note("fault.dial.error")
			histMu.Lock()
			dialFails[id]++
			histMu.Unlock()
			return nil, fmt.Errorf("cannot dial %s", id)
		}
		rp := peers[id]
		a, b := mkConn(id, rp.gen)
		if len(taps) > 0 {
			t := taps[len(taps)-1]
			t.l.OnWritten(func(_ int, r *Rpc) { releaseFn(t.name, r) })
		}
		rp.end, rp.pxEnd = a, b
		if rp.first == nil {
			rp.first, rp.firstPx = a, b
		}
		rp.gen++
		startReader(rp, rp.gen-1)
		if ps.DialHold {
			e.Note("fault.dial.held")
			<-dialGate
		}
		dev := e.Log("dial.done", id, 0, "")
		histMu.Lock()
		dialDoneEv[fmt.Sprintf("%s.%d", id, rp.gen-1)] = dev
		histMu.Unlock()
		return b, nil
	}, icpt, onDisc)
	for _, n := range order {
		rp := peers[n]
		if rp.spec.Dial {
			continue
		}
		a, b := mkConn(n, 0)
		rp.end, rp.pxEnd, rp.first, rp.firstPx = a, b, a, b
		if rp.spec.Late {
			// attaches itself while envelopes addressed to it may already be arriving
			name, rp2, b2 := n, rp, b
			e.Go("peer."+n+".attach", func() {
				e.Pt("attach")
				px.AddClient(name, b2)
				histMu.Lock()
				attachedEv[name] = e.evN
				histMu.Unlock()
				e.Log("peer.attached", name, 0, "")
				e.Note("fault.peer.late-attach")
				startReader(rp2, 0)
			})
			continue
		}
		px.AddClient(n, b)
		startReader(rp, 0)
	}
	e.Go("proxy.serve", func() { px.Serve() })

	// credit: tokens per destination, released when the proxy writes to the peer
	credit := map[string]chan struct{}{}
	if p.Credit > 0 {
		for _, n := range order {
			credit[n] = make(chan struct{}, p.Credit)
		}
	}
	holdsToken := map[string]bool{} // payloads whose sender took a credit token
	release := func(n string, r *Rpc) {
		k := envKey(r)
		histMu.Lock()
		held := holdsToken[k]
		delete(holdsToken, k)
		histMu.Unlock()
		if !held {
			return
		}
		if ch := credit[n]; ch != nil {
			select {
			case <-ch:
			default:
			}
		}
	}
	releaseFn = release
	for i := range taps {
		t := taps[i]
		t.l.OnWritten(func(_ int, r *Rpc) { release(t.name, r) })
	}
	// expected deliveries
	type sentEnv struct {
		idx      int
		from     string
		final    string // destination peer after rewriting / routing ("" = not deliverable)
		hdrDest  string // header.Destination after the interceptor
		accepted bool
		maybe    bool // addressed to a peer that was attaching at the time: either outcome is fine
		payload  string
		spoof    int
		sentEv   int
		written  bool
		orig     *Rpc // a copy of what was written, taken before the proxy could touch it
	}
	var sent []*sentEnv
	bySender := map[int][]int{}
	for i, ev := range p.Envs {
		if ev.From >= 0 && ev.From < len(p.Peers) {
			bySender[ev.From] = append(bySender[ev.From], i)
		}
	}
	sentCount := 0
	sentN := func() int { histMu.Lock(); defer histMu.Unlock(); return sentCount }
	failed := map[string]bool{} // names whose (generation 0) connection was failed by the harness
	badFailedGen := -1
	_ = badFailedGen
	doFail := func() {
		for _, n := range order {
			rp := peers[n]
			if rp.first == nil {
				continue
			}
			switch rp.spec.Role {
			case 2:
				rp.first.Out.FailRead(InjectedErr(p.ErrKind)) // the proxy's read from this peer fails
				failed[n] = true
				badFailedGen = 0
				e.Note("fault.link.readFail")
			case 3:
				rp.first.In.FailWrite(InjectedErr(p.ErrKind + 1)) // the proxy's write to this peer fails
				failed[n] = true
				badFailedGen = 0
				e.Note("fault.link.writeFail")
			case 4:
				// the connection is closed: the proxy's reads and writes both fail from now on
				rp.first.Out.FailRead(InjectedErr(p.ErrKind))
				rp.first.In.FailWrite(InjectedErr(p.ErrKind + 1))
				failed[n] = true
				badFailedGen = 0
				e.Note("fault.link.readFail")
				e.Note("fault.link.writeFail")
			}
		}
	}
	reattachDoneEv := 0
	sameConnDone := false
	sendStart := map[string]int{} // payload -> event number at which its sender began to write it
	reattach := func() {
		rp := peers["bad"]
		if rp == nil || rp.spec.Dial {
			return
		}
		if p.SameConn && rp.first != nil && rp.spec.Role == 2 && failed["bad"] && rp.first.Out.FailedReads() > 0 {
			// (only once the proxy's Read has actually reported the failure: a failure
			// nobody was told of has not happened)
			sameConnDone = true
			// the peer's transport object has recovered from the read that failed and is
			// attached again as it is: same object, same peer-side reader
			rp.first.Out.Heal()
			px.AddClient("bad", rp.firstPx)
			ev := e.Log("peer.reattached", "bad", rp.gen, "same transport")
			histMu.Lock()
			reattachDoneEv = ev
			histMu.Unlock()
			e.Note("fault.peer.reattach")
			e.Note("fault.peer.reattach.same-transport")
			return
		}
		rp.gen++
		a, b := mkConn("bad", rp.gen)
		t := taps[len(taps)-1]
		t.l.OnWritten(func(_ int, r *Rpc) { release(t.name, r) })
		rp.end, rp.pxEnd = a, b
		px.AddClient("bad", b)
		ev := e.Log("peer.reattached", "bad", rp.gen, "")
		histMu.Lock()
		reattachDoneEv = ev
		histMu.Unlock()
		// the re-attached peer is healthy
		end := a
		gen := rp.gen
		e.Go(fmt.Sprintf("peer.bad.reader%d", gen), func() {
			for {
				if _, err := end.Read(rctx); err != nil {
					return
				}
			}
		})
		e.Note("fault.peer.reattach")
	}
	reattachFromCallback = reattach
	faultDone := false
	for si := range p.Peers {
		idxs := bySender[si]
		if len(idxs) == 0 {
			continue
		}
		ps := p.Peers[si]
		rp := peers[ps.Name]
		if rp == nil || rp.spec.Dial {
			continue
		}
		name := ps.Name
		e.Go("peer."+name+".writer", func() {
			for _, i := range idxs {
				ev := p.Envs[i]
				e.Pt("peer.send")
				payload := fmt.Sprintf("env-%d-from-%s", i, name)
				se := &sentEnv{idx: i, from: name, payload: payload, spoof: ev.Spoof}
				hd, ok := rewrite(ev.To)
				if p.Icpt == 0 {
					hd, ok = ev.To, true
				}
				se.hdrDest = hd
				final := hd
				if ev.Next != "" {
					final = ev.Next
				}
				deliverable := ok && ev.Spoof == 0
				if deliverable {
					tp := peers[final]
					if tp == nil || (tp.spec.Dial && tp.spec.DialErr) {
						deliverable = false
					} else if tp.spec.Late {
						histMu.Lock()
						_, attached := attachedEv[final]
						histMu.Unlock()
						if !attached {
							// sent while the peer was not (yet) attached: a failed dial
							// may lose it, or the attach may win
							deliverable = false
							se.maybe = true
							histMu.Lock()
							maybeSent[final]++
							tooMany := maybeSent[final] > 3 // 3 + credit 12 stays below the 16-slot buffer
							histMu.Unlock()
							if tooMany {
								continue // stay within the credit: these take no token
							}
						}
					}
				}
				if deliverable {
					se.final, se.accepted = final, true
					if ch := credit[final]; ch != nil && !(p.Hostile && final == "bad") {
						ch <- struct{}{} // blocks while 12 are outstanding for that destination
						histMu.Lock()
						holdsToken[payload] = true
						histMu.Unlock()
					}
				}
				r := &Rpc{Id: uint64(1000 + i), Body: &goatorepo.Body{Data: []byte(payload)}}
				switch ev.Shape {
				case 1:
					r.Trailer, r.Status = &goatorepo.Trailer{}, &goatorepo.ResponseStatus{}
				case 2:
					r.Reset_ = &goatorepo.Reset{Type: "RST_STREAM"}
				}
				if ev.Spoof != 2 {
					r.Header = &goatorepo.RequestHeader{Method: "/raw/M", Source: name, Destination: ev.To}
					if ev.Spoof == 1 {
						r.Header.Source = name + "-forged"
						e.Note("fault.peer.spoof")
					}
					if ev.Next != "" {
						r.Header.ProxyNext = []string{ev.Next}
					} else if ev.EmptyNext {
						r.Header.ProxyNext = []string{}
						e.Note("shape.empty-proxy-next")
					}
					for k := 0; k < ev.Rec; k++ {
						r.Header.ProxyRecord = append(r.Header.ProxyRecord, fmt.Sprintf("hop%d", k))
					}
					if ev.Rec > 0 {
						e.Note("shape.proxy-record-prefilled")
					}
				} else {
					e.Note("fault.peer.noheader")
				}
				end := rp.end
				se.orig = proto.Clone(r).(*Rpc)
				st := e.Log("peer.send", name, i, "")
				histMu.Lock()
				sendStart[payload] = st
				histMu.Unlock()
				err := end.Write(rctx, r)
				histMu.Lock()
				se.sentEv = e.evN
				se.written = err == nil
				sent = append(sent, se)
				sentCount++
				histMu.Unlock()
				e.Log("peer.sent", name, i, "")
			}
		})
	}
	// drive: role faults / re-attach / cancel at their positions
	cancelled := false
	cancelEv := 0
	steps0 := e.Step
	for {
		reason := e.Drive(func() bool {
			if !faultDone && sentN() >= p.FailAt {
				return true
			}
			if p.CancelAt > 0 && !cancelled && e.Step-steps0 >= p.CancelAt {
				return true
			}
			return false
		})
		if reason == Crashed || reason == StepLimit {
			return
		}
		if reason != CondMet {
			break
		}
		if !faultDone && sentN() >= p.FailAt {
			faultDone = true
			if p.CancelAt == 0 {
				releaseDial()
			}
			if p.Reattach == 1 {
				e.Call("peer.bad.reattach", reattach)
			}
			doFail()
			if p.Reattach == 2 {
				// let the failure be processed first
				e.Drive(nil)
				e.Call("peer.bad.reattach", reattach)
			}
			if p.Reattach == 3 {
				// the scheduler decides where the re-attach lands relative to the
				// handling of the failure (including inside the disconnect callback)
				e.Go("peer.bad.reattach", func() {
					e.Pt("reattach")
					reattach()
				})
			}
			continue
		}
		if p.CancelAt > 0 && !cancelled {
			cancelled = true
			cancelEv = e.Log("fault.proxy.cancel", "", 0, "")
			pcancel()
			e.Note("fault.proxy.cancel")
			// a dial still in progress completes only after the cancellation has settled
			if rr := e.Drive(nil); rr == Crashed || rr == StepLimit {
				return
			}
			releaseDial()
		}
	}
	releaseDial()
	if !faultDone {
		faultDone = true
		doFail()
	}
	// unblock writers waiting for credit on destinations that will never drain
	reason := e.Settle()
	if reason == Crashed || reason == StepLimit {
		return
	}
	e.Note("nontrivial")
	drops := e.W.EventCount("proxy.go:forwardRpc:select#0:default")
	if drops > 0 {
		e.Note("proxy.drop")
	}
	prop := "C16"
	if p.Hostile {
		prop = "C17"
	}
	if !p.Hostile {
		// "dialling that peer on demand": no connection fails in this family, so a peer
		// whose dial succeeded is attached for good - a second successful dial of the
		// same name means envelopes of one source-destination pair travel on two
		// connections, between which no order exists
		var dup []string
		histMu.Lock()
		for id, n := range dials {
			if ok := n - dialFails[id]; ok > 1 {
				dup = append(dup, fmt.Sprintf("%s was dialled %d times (%d failed): %d connections to one peer at once", id, n, dialFails[id], ok))
			}
		}
		histMu.Unlock()
		sort.Strings(dup)
		for _, d := range dup {
			e.Violate(prop, "duplicate-dial", "proxy.connect", "%s", d)
		}
	}
	// what each peer connection received
	type got struct {
		n   int
		rpc *Rpc
		ev  int
	}
	recv := map[string][]got{} // by peer name (all generations)
	recvGen := map[string]map[int][]got{}
	for _, t := range taps {
		t.l.mu.Lock()
		for _, tp := range t.l.Tap {
			g := got{rpc: tp.Rpc, ev: tp.N}
			recv[t.name] = append(recv[t.name], g)
			if recvGen[t.name] == nil {
				recvGen[t.name] = map[int][]got{}
			}
			recvGen[t.name][t.gen] = append(recvGen[t.name][t.gen], g)
		}
		t.l.mu.Unlock()
	}
	for n := range recv {
		sort.Slice(recv[n], func(i, j int) bool { return recv[n][i].ev < recv[n][j].ev })
	}
	// once AddClient(name, conn) has returned, conn is the peer of that name: an
	// envelope whose sender began writing it after that point is never handed to
	// the superseded connection
	if reattachDoneEv != 0 && peers["bad"] != nil {
		newest := peers["bad"].gen
		for gen, gs := range recvGen["bad"] {
			if gen >= newest {
				continue
			}
			for _, g := range gs {
				if st, ok := sendStart[string(g.rpc.GetBody().GetData())]; ok && st > reattachDoneEv {
					e.Violate("C16", "delivered-to-superseded-connection", "proxy", "envelope %q, which its sender began to write (event %d) after AddClient(bad) had returned for the re-attached peer (event %d), was written to the old connection (generation %d of %d)", trunc(string(g.rpc.GetBody().GetData())), st, reattachDoneEv, gen, newest)
					e.Violate("C17", "delivered-to-superseded-connection", "proxy", "envelope sent after the re-attach was written to the superseded connection (generation %d of %d)", gen, newest)
					break
				}
			}
		}
	}
	histMu.Lock()
	sents := append([]*sentEnv(nil), sent...)
	discs := append([]string(nil), disconnects...)
	histMu.Unlock()
	bad := peers["bad"]
	isBadRole := func(n string) bool { return bad != nil && n == "bad" && (bad.spec.Role != 0 || bad.spec.Dial) }
	// 1. spoofed / header-less envelopes appear nowhere; every delivery is one that was sent
	payloadSent := map[string]*sentEnv{}
	for _, se := range sents {
		payloadSent[se.payload] = se
	}
	count := map[string]int{}
	for n, gs := range recv {
		for _, g := range gs {
			k := envKey(g.rpc)
			se := payloadSent[k]
			if se == nil {
				e.Violate(prop, "invented-envelope", "proxy", "peer %s received an envelope nobody sent (%q)", n, k)
				continue
			}
			count[k]++
			if se.spoof != 0 {
				e.Violate("C17", "spoofed-forwarded", "proxy.go:forwardRpc", "envelope %d with %s was forwarded to %s", se.idx, []string{"", "a forged source", "no header"}[se.spoof], n)
				continue
			}
			if se.maybe {
				continue
			}
			if !se.accepted || se.final != n {
				if !(cancelled) {
					e.Violate(prop, "misrouted", "proxy", "envelope %d from %s (destination %q -> %q) was delivered to %s", se.idx, se.from, p.Envs[se.idx].To, se.final, n)
				}
				continue
			}
			// unchanged except routing fields; proxy name appended exactly once
			h := g.rpc.GetHeader()
			if h.GetSource() != se.from || h.GetMethod() != "/raw/M" || g.rpc.GetId() != uint64(1000+se.idx) {
				e.Violate(prop, "altered", "proxy", "envelope %d arrived altered: id %d source %q method %q", se.idx, g.rpc.GetId(), h.GetSource(), h.GetMethod())
			}
			if h.GetDestination() != se.hdrDest {
				e.Violate(prop, "destination-rewrite", "proxy", "envelope %d arrived with destination %q, want %q", se.idx, h.GetDestination(), se.hdrDest)
			}
			if se.orig != nil {
				// everything that is not a routing field: status, body, trailer, reset
				// marker, header metadata (compared on copies with the routing fields cleared)
				a, b := proto.Clone(se.orig).(*Rpc), proto.Clone(g.rpc).(*Rpc)
				for _, x := range []*Rpc{a, b} {
					if x.Header != nil {
						x.Header.Destination, x.Header.ProxyRecord, x.Header.ProxyNext = "", nil, nil
					}
				}
				if !proto.Equal(a, b) {
					what := "payload"
					switch {
					case (a.Reset_ == nil) != (b.Reset_ == nil) || a.GetReset_().GetType() != b.GetReset_().GetType():
						what = "reset"
					case !proto.Equal(a.Status, b.Status):
						what = "status"
					case !proto.Equal(a.Trailer, b.Trailer):
						what = "trailer"
					case !proto.Equal(a.Body, b.Body):
						what = "body"
					case !proto.Equal(a.Header, b.Header):
						what = "header"
					}
					e.Violate(prop, "altered", "proxy."+what, "envelope %d arrived with its %s changed: sent %v, delivered %v", se.idx, what, trunc(a.String()), trunc(b.String()))
				}
			}
			np := 0
			for _, r := range h.GetProxyRecord() {
				if r == proxyName {
					np++
				}
			}
			wantRec := 1
			if se.idx < len(p.Envs) {
				wantRec += p.Envs[se.idx].Rec
			}
			rec := h.GetProxyRecord()
			if np != 1 || len(rec) != wantRec || rec[len(rec)-1] != proxyName {
				e.Violate(prop, "proxy-record", "proxy", "envelope %d arrived with proxy_record %v, want the sender's %d entries followed by exactly one %s", se.idx, rec, wantRec-1, proxyName)
			}
			if len(h.GetProxyNext()) != 0 {
				e.Violate(prop, "proxy-next", "proxy", "envelope %d arrived with proxy_next %v not consumed", se.idx, h.GetProxyNext())
			}
		}
	}
	for k, c := range count {
		if c > 1 {
			e.Violate(prop, "duplicate", "proxy", "envelope %q was delivered %d times", k, c)
		}
	}
	// 2. every accepted envelope is delivered exactly once (unless dropped for
	// overflow, its destination is a bad peer, or the proxy was cancelled)
	missing := 0
	missingList := ""
	for _, se := range sents {
		if !se.accepted || !se.written || count[se.payload] > 0 {
			continue
		}
		if cancelled || isBadRole(se.final) || isBadRole(se.from) {
			continue
		}
		missing++
		if missing <= 6 {
			missingList += fmt.Sprintf(" #%d:%s->%s", se.idx, se.from, se.final)
		}
	}
	if missing > 0 {
		if missing <= drops {
			e.Violate(prop, "dropped-on-overflow", "proxy.go:forwardRpc:select#0:default", "%d accepted envelopes were never delivered (%s); the proxy counted %d overflow drops (credit %d)", missing, missingList, drops, p.Credit)
		} else {
			blocked := ""
			if p.Hostile {
				blocked = "\n" + e.WaitGraph()
			}
			cls, site := "unexplained-loss", "proxy"
			if p.Hostile {
				cls, site = "healthy-traffic-stalled", badRoleName(bad)
			}
			e.Violate(prop, cls, site, "%d accepted envelopes between healthy peers were never delivered (%d overflow drops counted)%s", missing, drops, blocked)
		}
	}
	// 3. order per (source, destination)
	for _, t := range taps {
		n := t.name
		if sameConnDone && n == "bad" {
			// the old connection's writer and the new one's share one transport object:
			// what the old one still had queued is not ordered against the new one's
			continue
		}
		gs := recvGen[t.name][t.gen]
		last := map[string]int{}
		for _, g := range gs {
			se := payloadSent[envKey(g.rpc)]
			if se == nil || se.spoof != 0 {
				continue
			}
			if prev, ok := last[se.from]; ok && se.idx < prev {
				e.Violate(prop, "reordered", "proxy", "peer %s received envelope %d from %s after envelope %d", n, se.idx, se.from, prev)
			}
			last[se.from] = se.idx
		}
	}
	if !p.Hostile {
		return
	}
	// C17: disconnect callbacks, registry, shutdown
	for n := range failed {
		found := false
		for _, d := range discs {
			if d == n {
				found = true
			}
		}
		// a read failure is always noticed (the proxy is always reading); a write
		// failure only when the proxy tried to write to the peer afterwards
		need := bad != nil && (bad.spec.Role == 2 || bad.spec.Role == 4)
		if bad != nil && bad.spec.Role == 3 {
			for _, se := range sents {
				if se.accepted && se.written && se.final == n && count[se.payload] == 0 {
					need = true
				}
			}
		}
		if p.NoCallback {
			// nobody to tell; the removal of a connection whose reads failed (always
			// noticed) is judged on the registry itself
			if !goat.VerifFallback && !cancelled && p.Reattach == 0 && bad != nil && (bad.spec.Role == 2 || bad.spec.Role == 4) && bad.firstPx != nil && goat.VerifProxyConn(px, n) == goat.RpcReadWriter(bad.firstPx) {
				e.Violate(prop, "failed-connection-kept", badRoleName(bad)+".no-callback", "the failed connection of %s is still registered with the proxy (built without a disconnect callback)", n)
			}
			continue
		}
		if !found && !cancelled && need {
			e.Violate(prop, "no-disconnect-callback", badRoleName(bad), "the connection of %s failed but the disconnect callback never named it", n)
		}
	}
	// one failed connection is one report: a second callback for the same failure
	// names a peer whose newer connection (if it re-attached meanwhile) is healthy
	nDisc := map[string]int{}
	for _, d := range discs {
		nDisc[d]++
	}
	for n := range failed {
		if ps := dialable[n]; ps != nil && ps.DialErr {
			continue
		}
		histMu.Lock()
		df := dialFails[n]
		histMu.Unlock()
		if nDisc[n] > 1+df {
			e.Violate(prop, "duplicate-disconnect", badRoleName(bad), "one connection of %s failed (and %d later attempts to dial it); the disconnect callback named it %d times", n, df, nDisc[n])
		}
	}
	for _, d := range discs {
		ok := failed[d]
		if ps := dialable[d]; ps != nil && ps.DialErr {
			ok = true
		}
		if peers[d] == nil { // unknown destination: its dial failed
			ok = true
		}
		if !ok && !cancelled {
			e.Violate(prop, "spurious-disconnect", "proxy", "disconnect callback for %s, none of whose connections failed", d)
		}
	}
	if goat.VerifFallback {
		e.Note("accessors.fallback")
	}
	if !cancelled && !goat.VerifFallback {
		clients := goat.VerifProxyClients(px)
		has := func(n string) bool {
			for _, c := range clients {
				if c == n {
					return true
				}
			}
			return false
		}
		if bad != nil && failed["bad"] {
			gotDisc := false
			for _, d := range discs {
				if d == "bad" {
					gotDisc = true
				}
			}
			// (a later envelope may legitimately have re-dialled a dialable peer: only
			// the failed connection object itself must be gone)
			if p.Reattach == 0 && gotDisc && has("bad") && bad.firstPx != nil && goat.VerifProxyConn(px, "bad") == goat.RpcReadWriter(bad.firstPx) {
				e.Violate(prop, "failed-connection-kept", badRoleName(bad), "the failed connection of bad is still registered with the proxy")
			}
			if p.Reattach != 0 && gotDisc {
				cur := goat.VerifProxyConn(px, "bad")
				if cur == nil {
					e.Violate(prop, "reattached-connection-removed", "proxy.go:serveClients", "the failure of bad's old connection removed the newer connection attached under the same name (re-attached %s the failure)", []string{"", "before", "after", "concurrently with the handling of", "from the disconnect callback of"}[p.Reattach%5])
				} else if cur != goat.RpcReadWriter(bad.pxEnd) {
					e.Violate(prop, "reattached-connection-replaced", "proxy.go:serveClients", "the proxy holds a connection for bad that is not the newest one")
				} else {
					e.Note("reattach.kept")
				}
			}
		}
	}
	if cancelled {
		// nothing is forwarded after the cancellation has settled, no proxy goroutine remains
		e.Teardown()
		for _, l := range e.Leaked() {
			if strings.Contains(l, "proxy.go:") {
				e.Violate(prop, "goroutine-leak", leakSite(l), "goroutine of the proxy still alive after its context was cancelled: %s", l)
			}
		}
		// forwarding stops: a connection's write loop may finish the one envelope it had
		// already taken when the context ended, nothing more; a connection whose dial
		// returns after the cancellation is not used at all
		for _, t := range taps {
			after := 0
			t.l.mu.Lock()
			for _, tp := range t.l.Tap {
				if tp.N > cancelEv && !tp.Withdrawn {
					after++
				}
			}
			t.l.mu.Unlock()
			histMu.Lock()
			dd, dialled := dialDoneEv[fmt.Sprintf("%s.%d", t.name, t.gen)]
			histMu.Unlock()
			if dialled && dd > cancelEv && after > 0 {
				e.Violate(prop, "forwarded-after-cancel", "proxy.connect", "the dial of %s returned (event %d) after the proxy's context was cancelled (event %d); the proxy went on to write %d envelope(s) to the new connection", t.name, dd, cancelEv, after)
			} else if after > 1 {
				e.Violate(prop, "forwarded-after-cancel", "proxy.writeLoop", "%d envelopes were written to %s (generation %d) after the proxy's context was cancelled (event %d): more than the one a write loop may have had in hand", after, t.name, t.gen, cancelEv)
			}
		}
	}
}

func badRoleName(b *rawPeer) string {
	if b == nil {
		return "none"
	}
	if b.spec.Dial {
		if b.spec.DialErr {
			return "dial-error"
		}
		return "slow-dial"
	}
	return []string{"healthy", "stuck-writer", "failing-reader", "failing-writer", "closed-connection"}[b.spec.Role%5]
}

var _ = proto.Equal

func init() {
	Register(&Family{Name: "c16.raw", ShrinkKeys: []string{"envs", "fail_at"}, Props: []string{"C16"}, New: func() any { return &ProxyParams{} }, Gen: genProxyRaw(false), Exec: execProxyRaw,
		Faulty: true, FaultKinds: []string{"dial.error", "dial.slow"}})
	Register(&Family{Name: "c17.peers", ShrinkKeys: []string{"envs", "fail_at", "cancel_at"}, Props: []string{"C17", "C16"}, New: func() any { return &ProxyParams{} }, Gen: genProxyRaw(true), Exec: execProxyRaw,
		Faulty: true, FaultKinds: []string{"peer.spoof", "peer.noheader", "link.readFail", "link.writeFail", "link.stall", "dial.error", "dial.slow", "peer.reattach", "proxy.cancel"}})
}
