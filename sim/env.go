package verifsim

import (
	"strconv"
	"context"
	"fmt"
	"hash/fnv"
	"math/rand/v2"
	"os"
	"runtime"
	"sort"
	"strings"
	"testing/synctest"
	"time"

	"github.com/avos-io/goat/internal/simhook"
)

// Violation is one contradiction of a property found by an oracle.
type Violation struct {
	Property string `json:"property"`
	Class    string `json:"class"`  // stable identifier of the kind of failure
	Site     string `json:"site"`   // call site / envelope shape that identifies a known finding
	Detail   string `json:"detail"` // human-readable
}

// Strategy kinds.
const (
	StratUniform = iota
	StratSticky
	StratPCT
	StratDeliverEager
	StratDeliverStarved
	StratRunToBlock // deterministic: lowest-index task first, then deliveries (default policy for minimised tapes)
	numStrats
)

var stratNames = []string{"uniform", "sticky", "pct", "deliver-eager", "deliver-starved", "run-to-block"}

// Env is one simulated run: one bubble, one world, one seed.
type Env struct {
	parkCh chan struct{} // see tornDown
	W    *simhook.World
	Gen  *rand.Rand // scenario / fault-plan generation
	sch  *rand.Rand // scheduling decisions
	Seed uint64

	Strategy int
	pctPrio  map[string]int
	pctChg   []int
	lastTask *simhook.Task

	links []*Link
	Step  int

	// decision tape
	Record   bool
	Tape     []string
	Replay   []string // when non-nil, decisions are taken from here
	replayAt int
	Diverged int // replay entries that named a disabled action

	// timers the harness knows about (absolute fake time)
	deadlines []time.Time
	flushes   int

	evN  int
	Hist []Ev
	// HistOn controls whether API-level events are kept (wire taps are
	// always kept on the links).
	fp     uint64
	fpAcc  uint64
	fpStep int

	Violations []Violation
	Notes      map[string]int // reach probes & counters
	MaxSteps   int
	StepLimitHit bool
	aborted    bool

	cleanup []func()
	start   time.Time
	// Free: free-running mode for the race detector (C15): no lock-step, tasks
	// are plain goroutines, links deliver at once, yields perturb the schedule.
	Free        bool
	freeCrashes []simhook.Crash
	// NoAutoAdvance: when nothing is enabled, Drive returns Quiescent instead
	// of jumping to the next known deadline (position sweeps place the expiry themselves).
	NoAutoAdvance bool
	Held string // name of a task that is not offered to the scheduler while set
}

// Ev is an entry of the global history.
type Ev struct {
	N    int    `json:"n"`
	Kind string `json:"k"`
	Who  string `json:"w,omitempty"`
	Call int    `json:"c,omitempty"`
	Info string `json:"i,omitempty"`
}

func newEnv(seed uint64) *Env {
	e := &Env{
		Seed:     seed,
		Gen:      rand.New(rand.NewPCG(seed, 0x9e3779b97f4a7c15)),
		sch:      rand.New(rand.NewPCG(seed^0xabcdef12345, 0x1234567)),
		Notes:    map[string]int{},
		MaxSteps: 400000,
	}
	return e
}

// Note bumps a reach probe.
func (e *Env) Note(k string) { e.Notes[k]++ }

// Log appends to the history and returns the event number. Safe from tasks.
func (e *Env) Log(kind, who string, call int, info string) int {
	histMu.Lock()
	e.evN++
	n := e.evN
	e.Hist = append(e.Hist, Ev{N: n, Kind: kind, Who: who, Call: call, Info: info})
	// fingerprint: order of (kind, call) across driver steps; events of one
	// step are combined commutatively (several goroutines woken by one step -
	// e.g. by a context cancellation, whose fan-out order inside the standard
	// library is map-iteration order - log in an order the seed does not decide)
	h := uint64(0xcbf29ce484222325)
	for i := 0; i < len(kind); i++ {
		h = (h ^ uint64(kind[i])) * 0x100000001b3
	}
	h = (h ^ uint64(call+1)) * 0x100000001b3
	if e.Step != e.fpStep {
		e.fp = (e.fp ^ e.fpAcc) * 0x9E3779B97F4A7C15
		e.fpAcc = 0
		e.fpStep = e.Step
	}
	e.fpAcc += h
	histMu.Unlock()
	return n
}

// EvCount returns the number of events so far.
func (e *Env) EvCount() int {
	histMu.Lock()
	defer histMu.Unlock()
	return e.evN
}

// NextEv returns a fresh event number without logging.
func (e *Env) NextEv() int {
	histMu.Lock()
	e.evN++
	n := e.evN
	histMu.Unlock()
	return n
}

// Fingerprint of the observed interleaving.
func (e *Env) Fingerprint() uint64 {
	histMu.Lock()
	defer histMu.Unlock()
	return (e.fp ^ e.fpAcc) * 0x9E3779B97F4A7C15
}

// Violate records a violation.
func (e *Env) Violate(prop, class, site, format string, args ...any) {
	histMu.Lock()
	e.Violations = append(e.Violations, Violation{Property: prop, Class: class, Site: site, Detail: fmt.Sprintf(format, args...)})
	histMu.Unlock()
}

// Pt0 is a no-op marker for driver-side actions (kept for readability).
func (e *Env) Pt0() {}

// Pt is a harness scheduling point: the calling task parks until the driver
// picks it.
func (e *Env) Pt(label string) { simhook.Yield(label) }

// Go starts a harness task.
func (e *Env) Go(name string, fn func()) *simhook.Task {
	if e.Free {
		go func() {
			defer func() {
				if r := recover(); r != nil {
					buf := make([]byte, 8<<10)
					buf = buf[:runtime.Stack(buf, false)]
					histMu.Lock()
					e.freeCrashes = append(e.freeCrashes, simhook.Crash{Task: name, Value: fmt.Sprint(r), Stack: string(buf)})
					histMu.Unlock()
				}
			}()
			simhook.Yield("start:" + name)
			fn()
		}()
		return nil
	}
	return simhook.GoNamed(name, fn)
}

// Call runs fn as a task of its own and drives until it has returned, or until nothing
// can run any more (fn is stuck, and the oracles will say so). Entry points of the
// library that take its locks are not called on the driver's own goroutine: the driver is
// not a task, so a lock held by a parked task would block it for real and the run would
// end in the watchdog instead of in a verdict.
func (e *Env) Call(name string, fn func()) bool {
	done := false
	e.Go(name, func() {
		fn()
		histMu.Lock()
		done = true
		histMu.Unlock()
	})
	isDone := func() bool {
		histMu.Lock()
		defer histMu.Unlock()
		return done
	}
	saved := e.NoAutoAdvance
	e.NoAutoAdvance = true
	e.Drive(isDone)
	e.NoAutoAdvance = saved
	return isDone()
}

// Crashes returns the crashes recorded so far (either mode).
func (e *Env) Crashes() []simhook.Crash {
	if e.Free {
		histMu.Lock()
		defer histMu.Unlock()
		return append([]simhook.Crash(nil), e.freeCrashes...)
	}
	return e.W.Crashes()
}

// WithTimeout creates a context with a deadline on the fake clock and tells
// the driver about it.
func (e *Env) WithTimeout(parent context.Context, d time.Duration) (context.Context, context.CancelFunc) {
	histMu.Lock()
	e.deadlines = append(e.deadlines, time.Now().Add(d))
	histMu.Unlock()
	return context.WithTimeout(parent, d)
}

// KnownDeadline tells the driver about a timer it would otherwise not see.
func (e *Env) KnownDeadline(t time.Time) {
	histMu.Lock()
	e.deadlines = append(e.deadlines, t)
	histMu.Unlock()
}

type action struct {
	kind byte // 'T' task, 'D' deliver, 'A' advance
	name string
	t    *simhook.Task
	l    *Link
	d    time.Duration
}

func (e *Env) enabled(buf []action, tb []*simhook.Task) []action {
	buf = buf[:0]
	for _, t := range e.W.Enabled(tb[:0]) {
		if e.Held != "" && t.Name == e.Held {
			continue // a task the scenario keeps off the processor for a while (a slow thread)
		}
		buf = append(buf, action{kind: 'T', name: t.Name, t: t})
	}
	for _, l := range e.links {
		if l.canDeliver() {
			buf = append(buf, action{kind: 'D', name: l.Name, l: l})
		}
	}
	return buf
}

func (e *Env) initStrategy() {
	if e.Strategy == StratPCT {
		e.pctPrio = map[string]int{}
		d := 1 + e.sch.IntN(3)
		for i := 0; i < d; i++ {
			e.pctChg = append(e.pctChg, e.sch.IntN(400))
		}
	}
}

func (e *Env) pick(acts []action) int {
	if e.Replay != nil {
		// Subsequence replay: tape entries whose action is not enabled (the
		// scenario was shrunk, or the tape was thinned) are skipped, so the
		// relative order of the remaining decisions is preserved.
		for e.replayAt < len(e.Replay) {
			want := e.Replay[e.replayAt]
			e.replayAt++
			if strings.HasPrefix(want, "O:") || strings.HasPrefix(want, "A:") || strings.HasPrefix(want, "M:") {
				continue
			}
			for i, a := range acts {
				if string(a.kind)+":"+a.name == want {
					return i
				}
			}
			e.Diverged++
		}
		return 0 // after the tape: first enabled (run-to-block)
	}
	n := len(acts)
	if n == 1 {
		return 0
	}
	switch e.Strategy {
	case StratRunToBlock:
		return 0
	case StratSticky:
		if e.lastTask != nil && e.sch.IntN(10) != 0 {
			for i, a := range acts {
				if a.t == e.lastTask {
					return i
				}
			}
		}
		return e.sch.IntN(n)
	case StratPCT:
		for _, c := range e.pctChg {
			if c == e.Step && e.lastTask != nil {
				e.pctPrio[e.lastTask.Name] = -e.Step // demote
			}
		}
		best, bp := 0, -1<<62
		for i, a := range acts {
			p, ok := e.pctPrio[a.name]
			if !ok {
				p = 1 + e.sch.IntN(1<<20)
				e.pctPrio[a.name] = p
			}
			if p > bp {
				best, bp = i, p
			}
		}
		return best
	case StratDeliverEager, StratDeliverStarved:
		var w [64]int
		tot := 0
		for i, a := range acts {
			if i >= len(w) {
				break
			}
			wt := 4
			if a.kind == 'D' {
				if e.Strategy == StratDeliverEager {
					wt = 40
				} else {
					wt = 1
				}
			}
			w[i] = wt
			tot += wt
		}
		r := e.sch.IntN(tot)
		for i := range acts {
			if i >= len(w) {
				break
			}
			if r < w[i] {
				return i
			}
			r -= w[i]
		}
		return 0
	}
	return e.sch.IntN(n)
}

// Order implements simhook's OrderFn: a seeded permutation of 0..n-1.
func (e *Env) order(site string, n int) []int {
	p := make([]int, n)
	for i := range p {
		p[i] = i
	}
	if e.Replay != nil {
		pre := "O:" + site + ":"
		if e.replayAt < len(e.Replay) && strings.HasPrefix(e.Replay[e.replayAt], pre) {
			s := e.Replay[e.replayAt][len(pre):]
			e.replayAt++
			if len(s) == n {
				for i := 0; i < n; i++ {
					p[i] = int(s[i] - '0')
				}
			}
		}
		// otherwise (tape thinned or exhausted): program order
		if e.Record {
			e.Tape = append(e.Tape, pre+permString(p))
		}
		return p
	}
	if e.Strategy != StratRunToBlock {
		e.sch.Shuffle(n, func(i, j int) { p[i], p[j] = p[j], p[i] })
	}
	if e.Record {
		e.Tape = append(e.Tape, "O:"+site+":"+permString(p))
	}
	return p
}

// mapOrder implements simhook's MapOrderFn: the order in which this run
// iterates a map with n keys - a seeded permutation, recorded on the tape as
// "M:<site>:<i,j,...>" and replayed from it.
func (e *Env) mapOrder(site string, n int) []int {
	p := make([]int, n)
	for i := range p {
		p[i] = i
	}
	pre := "M:" + site + ":"
	enc := func() string {
		parts := make([]string, n)
		for i, v := range p {
			parts[i] = strconv.Itoa(v)
		}
		return pre + strings.Join(parts, ",")
	}
	if e.Replay != nil {
		if e.replayAt < len(e.Replay) && strings.HasPrefix(e.Replay[e.replayAt], pre) {
			parts := strings.Split(e.Replay[e.replayAt][len(pre):], ",")
			e.replayAt++
			if len(parts) == n {
				q := make([]int, n)
				seen := make([]bool, n)
				ok := true
				for i, s := range parts {
					v, err := strconv.Atoi(s)
					if err != nil || v < 0 || v >= n || seen[v] {
						ok = false
						break
					}
					q[i], seen[v] = v, true
				}
				if ok {
					p = q
				}
			}
		}
		// otherwise (tape thinned or exhausted): sorted order
		if e.Record {
			e.Tape = append(e.Tape, enc())
		}
		return p
	}
	e.sch.Shuffle(n, func(i, j int) { p[i], p[j] = p[j], p[i] })
	if e.Record {
		e.Tape = append(e.Tape, enc())
	}
	return p
}

func permString(p []int) string {
	b := make([]byte, len(p))
	for i, v := range p {
		b[i] = byte('0' + v)
	}
	return string(b)
}

// Reason a Drive call returned.
type Reason int

const (
	Quiescent Reason = iota
	CondMet
	StepLimit
	Crashed
)

// Drive runs the lock-step loop until cond holds (checked at every quiescent
// point), nothing is enabled and no known timer remains, a crash is recorded,
// or the step budget is exhausted.
func (e *Env) Drive(cond func() bool) Reason {
	if e.Free {
		return e.driveFree(cond)
	}
	var abuf []action
	var tbuf []*simhook.Task
	tbuf = make([]*simhook.Task, 0, 64)
	for {
		synctest.Wait()
		if len(e.W.Crashes()) > 0 {
			return Crashed
		}
		if cond != nil && cond() {
			return CondMet
		}
		abuf = e.enabled(abuf, tbuf)
		if len(abuf) == 0 {
			if !e.NoAutoAdvance && e.advanceToNextTimer() {
				continue
			}
			return Quiescent
		}
		if e.Step >= e.MaxSteps {
			e.StepLimitHit = true
			return StepLimit
		}
		i := e.pick(abuf)
		a := abuf[i]
		if e.Record {
			e.Tape = append(e.Tape, string(a.kind)+":"+a.name)
		}
		e.Step++
		switch a.kind {
		case 'T':
			e.lastTask = a.t
			e.W.Resume(a.t)
		case 'D':
			a.l.deliver()
		}
	}
}

// driveFree: free-running mode. The condition is polled while the tasks run
// (so that faults land in mid-flight), then the bubble is left to quiesce.
func (e *Env) driveFree(cond func() bool) Reason {
	for round := 0; round < 50; round++ {
		n := 50 + int(e.sch.IntN(400))
		for i := 0; i < n; i++ {
			if cond != nil && cond() {
				return CondMet
			}
			runtime.Gosched()
		}
		synctest.Wait()
		if len(e.Crashes()) > 0 {
			return Crashed
		}
		if cond != nil && cond() {
			return CondMet
		}
		if e.NoAutoAdvance || !e.advanceToNextTimer() {
			return Quiescent
		}
	}
	return Quiescent
}

// Advance moves the fake clock by d and lets everything that became due run
// up to its next yield.
func (e *Env) Advance(d time.Duration) {
	if e.Record {
		e.Tape = append(e.Tape, "A:"+d.String())
	}
	time.Sleep(d)
	synctest.Wait()
}

// advanceToNextTimer: nothing is enabled. Jump to the earliest known future
// deadline; with none known, flush unknown timers a bounded number of times.
func (e *Env) advanceToNextTimer() bool {
	now := time.Now()
	histMu.Lock()
	var next time.Time
	keep := e.deadlines[:0]
	for _, d := range e.deadlines {
		if d.After(now) {
			keep = append(keep, d)
			if next.IsZero() || d.Before(next) {
				next = d
			}
		}
	}
	e.deadlines = keep
	histMu.Unlock()
	if !next.IsZero() {
		e.Advance(next.Sub(now))
		return true
	}
	return false
}

// Flush advances the clock far enough for any timer the harness does not
// know about (goat's 30 s reset-write deadline, tickers) and reports whether
// anything became enabled.
func (e *Env) Flush(d time.Duration) bool {
	if debugLinks {
		for _, l := range e.links {
			l.mu.Lock()
			fmt.Printf("LINK %s inflight=%d arrived=%d readers=%d stalled=%v readErr=%v writeErr=%v\n", l.Name, len(l.inflight), len(l.arrived), len(l.readers), l.stalled, l.readErr, l.writeErr)
			l.mu.Unlock()
		}
		fmt.Print(e.WaitGraph())
	}
	e.Advance(d)
	var tb []*simhook.Task
	return len(e.enabled(nil, tb)) > 0
}

// Settle drives without faults until quiescent, flushing unknown timers.
func (e *Env) Settle() Reason {
	for i := 0; i < 4; i++ {
		r := e.Drive(nil)
		if r != Quiescent {
			return r
		}
		if !e.Flush(45 * time.Second) {
			return Quiescent
		}
	}
	return e.Drive(nil)
}

// Blocked lists tasks that are alive but neither done nor enabled.
func (e *Env) Blocked(goatOnly bool) []simhook.TaskView {
	var out []simhook.TaskView
	for _, v := range e.W.Snapshot() {
		if v.Done || !v.Started {
			continue
		}
		if goatOnly && !v.Goat {
			continue
		}
		out = append(out, v)
	}
	return out
}

// WaitGraph renders parked/blocked tasks for wedge reports.
func (e *Env) WaitGraph() string {
	var sb strings.Builder
	for _, v := range e.W.Snapshot() {
		if v.Done {
			if os.Getenv("VERIF_GRAPH_ALL") != "" {
				fmt.Fprintf(&sb, "%s: done (last %s)\n", v.Name, v.LastSite)
			}
			continue
		}
		switch {
		case v.Parked && v.Enabled:
			fmt.Fprintf(&sb, "%s: runnable at %s\n", v.Name, v.Site)
		case v.Parked:
			fmt.Fprintf(&sb, "%s: wants lock at %s, held by %s\n", v.Name, v.Site, v.WaitsFor)
		default:
			fmt.Fprintf(&sb, "%s: blocked after %s\n", v.Name, v.LastSite)
		}
	}
	return sb.String()
}

// Teardown ends the run: links fail, harness contexts are cancelled, and the
// lock-step loop keeps running (run-to-block, no faults) so that every
// goroutine that can exit does. Hooks stay on: a goroutine that waits for a
// goat lock whose owner is blocked forever stays parked on a bubble channel
// (durably blocked) instead of on a real mutex, which synctest could not
// see through. Whatever is left is reported by Leaked.
func (e *Env) Teardown() {
	if e.aborted {
		return
	}
	e.aborted = true
	for _, l := range e.links {
		l.abort()
	}
	for i := len(e.cleanup) - 1; i >= 0; i-- {
		e.cleanup[i]()
	}
	if e.Free {
		synctest.Wait()
		time.Sleep(2 * time.Minute)
		synctest.Wait()
		return
	}
	e.Replay = nil
	e.Record = false
	e.Strategy = StratRunToBlock
	lim := e.Step + 200000
	if e.MaxSteps < lim {
		e.MaxSteps = lim
	}
	for i := 0; i < 3; i++ {
		if e.Drive(nil) == Crashed {
			break
		}
		// goat's 30 s reset-write deadline, tickers
		if !e.Flush(2 * time.Minute) {
			break
		}
	}
}

// OnTeardown registers a cleanup (cancel funcs etc.).
// tornDown returns a channel that is never closed while the run lasts: a task parked
// on it stays parked (the bubble it lives in is abandoned at the end of the run).
func (e *Env) tornDown() <-chan struct{} {
	histMu.Lock()
	defer histMu.Unlock()
	if e.parkCh == nil {
		e.parkCh = make(chan struct{})
	}
	return e.parkCh
}

func (e *Env) OnTeardown(f func()) {
	histMu.Lock()
	e.cleanup = append(e.cleanup, f)
	histMu.Unlock()
}

// Leaked returns the names (with last site) of goat tasks still alive.
func (e *Env) Leaked() []string {
	var out []string
	for _, v := range e.W.Snapshot() {
		if !v.Done && v.Started && v.Goat {
			out = append(out, v.Name+" @"+v.LastSite)
		}
	}
	sort.Strings(out)
	return out
}

var debugLinks = os.Getenv("VERIF_DEBUG_LINKS") != ""

func hashStr(s string) uint64 {
	h := fnv.New64a()
	h.Write([]byte(s))
	return h.Sum64()
}
