package verifsim

import (
	"time"
	"bytes"
	"context"
	"fmt"
	"io"
	"math/rand/v2"
	"strings"

	"github.com/avos-io/goat/gen/goatorepo"
	"google.golang.org/grpc/codes"
	"google.golang.org/grpc/status"
	"google.golang.org/protobuf/proto"
	"google.golang.org/protobuf/types/known/wrapperspb"

	goat "github.com/avos-io/goat"
)

// Raw server peer: a harness task that answers a real goat client with
// scripted envelopes (foreign-but-valid conversations for C03/C05, hostile
// ones for C13).

// Response shapes.
const (
	RNoHeader       = iota // id + body, no header
	RHeaderOnly            // header
	RBody                  // header + body
	RBodyOKStatus          // header + body + explicit OK status, no trailer
	RBodyErrStatus         // header + body + non-OK status, no trailer
	RTrailerNoStatus       // header + trailer, status absent
	RTrailerOK             // header + trailer + OK status
	RTrailerErr            // header + trailer + non-OK status
	RTrailerBadMD          // header + trailer with undecodable -bin metadata + OK status
	RHeaderBadMD           // header with undecodable -bin header (+ body)
	RReset                 // reset + empty trailer (what goat's server sends)
	RResetBare             // reset without trailer
	RUnaryOK               // header + body + trailer
	RUnaryExplicitOK       // header + body + explicit OK status + trailer
	REmpty                 // id only
	RUnaryErr              // header + non-OK status + trailer
	RGarbageBody           // header + body that is not a BytesValue
	RBodyTrailer           // header + body + trailer (+OK status)
	numRShapes
)

var rShapeNames = []string{"no-header", "header-only", "body", "body+ok-status", "body+err-status", "trailer-no-status", "trailer-ok",
	"trailer-err", "trailer-bad-md", "header-bad-md", "reset", "reset-bare", "unary-ok", "unary-explicit-ok", "empty", "unary-err", "garbage-body", "body+trailer"}

type RawResp struct {
	To    int `json:"to"`    // index into Calls, -1: unknown id
	Shape int `json:"shape"`
}

type RawSrvParams struct {
	Links   []LinkCfg   `json:"links"`
	Calls   []*CallSpec `json:"calls"`
	Seq     []RawResp   `json:"seq"`
	Stats   bool        `json:"stats"`
	Hostile bool        `json:"hostile"` // sequences are arbitrary (C13); otherwise valid foreign conversations (C03, C05)
	Close   bool        `json:"close"`   // fail the client's reads at the end
	CloseErr int        `json:"close_err,omitempty"` // which error the client's Read reports when the connection ends
	Expire  bool        `json:"expire,omitempty"` // unary calls of the scenario carry a short deadline and have given up before the peer answers (C11: a peer that sends more than expected)
	ResetOK bool        `json:"reset_ok,omitempty"` // a peer that fills an explicit OK status into every envelope, resets included: a reset still is a failure
	NilKV   bool        `json:"nil_kv,omitempty"` // every metadata list the peer sends has a nil entry appended (by-reference links only)
	SlowPeer bool       `json:"slow_peer,omitempty"` // the peer stops reading once every call is open: the callers' further sends sit in a rendezvous transport while the hostile answers arrive
	Enum    int         `json:"enum,omitempty"` // >0: Seq is the idx-th sequence of that length in the bounded enumeration
}

const errCode = 9 // FailedPrecondition
const errMsg = "foreign failure ✗"

// buildResp constructs the envelope for shape, addressed to wire id, as the
// k-th body-carrying envelope for that call.
func buildResp(shape int, id uint64, method string, callID int, seq int) *Rpc {
	h := &goatorepo.RequestHeader{Method: method, Source: ServerID, Destination: clientName(0)}
	body := func() *goatorepo.Body {
		b, _ := proto.Marshal(wrapperspb.Bytes(MakePayload(callID, 'h', seq, 12)))
		return &goatorepo.Body{Data: b}
	}
	okSt := &goatorepo.ResponseStatus{Code: 0, Message: "OK"}
	errSt := &goatorepo.ResponseStatus{Code: errCode, Message: errMsg}
	badMD := []*goatorepo.KeyValue{{Key: []string{"bad-bin", "Bad-bin", "bad-Bin", "BAD-BIN"}[(int(id)+seq)%4], Value: "!!!not base64!!!"}}
	r := &Rpc{Id: id}
	switch shape {
	case RNoHeader:
		r.Body = body()
	case RHeaderOnly:
		r.Header = h
	case RBody:
		r.Header, r.Body = h, body()
	case RBodyOKStatus:
		r.Header, r.Body, r.Status = h, body(), okSt
	case RBodyErrStatus:
		r.Header, r.Body, r.Status = h, body(), errSt
	case RTrailerNoStatus:
		r.Header, r.Trailer = h, &goatorepo.Trailer{}
	case RTrailerOK:
		r.Header, r.Trailer, r.Status = h, &goatorepo.Trailer{}, okSt
	case RTrailerErr:
		r.Header, r.Trailer, r.Status = h, &goatorepo.Trailer{}, errSt
	case RTrailerBadMD:
		r.Header, r.Trailer, r.Status = h, &goatorepo.Trailer{Metadata: badMD}, okSt
	case RHeaderBadMD:
		h.Headers = badMD
		r.Header, r.Body = h, body()
	case RReset:
		r.Header, r.Reset_, r.Trailer = h, &goatorepo.Reset{Type: "RST_STREAM"}, &goatorepo.Trailer{}
	case RResetBare:
		r.Header, r.Reset_ = h, &goatorepo.Reset{Type: "RST_STREAM"}
	case RUnaryOK:
		r.Header, r.Body, r.Trailer = h, body(), &goatorepo.Trailer{}
	case RUnaryExplicitOK:
		r.Header, r.Body, r.Status, r.Trailer = h, body(), okSt, &goatorepo.Trailer{}
	case REmpty:
	case RUnaryErr:
		r.Header, r.Status, r.Trailer = h, errSt, &goatorepo.Trailer{}
	case RGarbageBody:
		r.Header, r.Body = h, &goatorepo.Body{Data: []byte{0xff, 0xff, 0xff, 0x01, 0x02}}
	case RBodyTrailer:
		r.Header, r.Body, r.Trailer, r.Status = h, body(), &goatorepo.Trailer{}, okSt
	}
	return r
}

func carriesBody(shape int) bool {
	switch shape {
	case RNoHeader, RBody, RBodyOKStatus, RBodyErrStatus, RHeaderBadMD, RUnaryOK, RUnaryExplicitOK, RBodyTrailer:
		return true
	}
	return false
}

// streaming client program used against raw servers: send one message, half
// close, ask for the header, receive until the end, ask for the trailer
func rawClientProg(kind int) []Op {
	var p []Op
	if kind != KSStream || true {
		p = append(p, Op{K: 's'}, Op{K: 'c'})
	}
	return append(p, Op{K: 'h'}, Op{K: 'R'}, Op{K: 't'})
}

// genRawValid: valid foreign conversations for k calls, interleaved.
func genRawValid(g *rand.Rand, tier string) any {
	p := &RawSrvParams{Links: drawLinks(g, 2)}
	p.Links[0].Cap, p.Links[1].Cap = -1, -1
	p.ResetOK = g.IntN(3) == 0
	k := 2 + g.IntN(5)
	if g.IntN(4) == 0 {
		k = 1
	}
	var scripts [][]int
	for i := 0; i < k; i++ {
		c := &CallSpec{ID: i + 1, MsgLen: 12}
		var sc []int
		if g.IntN(3) == 0 {
			c.Kind = KUnary
			c.ReqLen = 12
			sc = []int{[]int{RUnaryOK, RUnaryExplicitOK, RUnaryErr}[g.IntN(3)]}
		} else {
			c.Kind = 1 + g.IntN(3)
			c.CSendN = 1
			c.CProg = rawClientProg(c.Kind)
			if g.IntN(3) == 0 {
				sc = append(sc, RHeaderOnly)
			}
			nb := g.IntN(4)
			if k*nb > 8 && g.IntN(2) == 0 {
				nb = 1
			}
			if c.Kind == KCStream && nb > 1 {
				nb = 1 // a valid conversation: a client-streaming RPC has a single reply
			}
			for j := 0; j < nb; j++ {
				sc = append(sc, RBody)
			}
			if g.IntN(6) != 0 {
				end := []int{RTrailerOK, RTrailerOK, RTrailerNoStatus, RTrailerErr, RReset, RBodyTrailer}[g.IntN(6)]
				if end == RBodyTrailer && c.Kind == KCStream && nb == 1 {
					// the single reply of a client-streaming RPC rides with the trailer
					// (README: "Client <- Server: id, header, body, status?, trailer")
					sc = sc[:len(sc)-1]
				}
				sc = append(sc, end)
			} // else: the peer never finishes the stream; the connection ends instead
		}
		p.Calls = append(p.Calls, c)
		scripts = append(scripts, sc)
	}
	// interleaving that preserves per-call order
	pos := make([]int, k)
	for {
		var live []int
		for i := range scripts {
			if pos[i] < len(scripts[i]) {
				live = append(live, i)
			}
		}
		if len(live) == 0 {
			break
		}
		i := live[g.IntN(len(live))]
		p.Seq = append(p.Seq, RawResp{To: i, Shape: scripts[i][pos[i]]})
		pos[i]++
	}
	p.Stats = g.IntN(2) == 0
	p.Close = true
	p.CloseErr = g.IntN(NumInjectedErrs)
	return p
}

// genRawHostile: arbitrary response sequences to two outstanding calls (C13).
func genRawHostile(g *rand.Rand, tier string) any {
	p := &RawSrvParams{Links: drawLinks(g, 2), Hostile: true, Close: true}
	p.Links[0].Cap, p.Links[1].Cap = -1, -1
	p.NilKV = g.IntN(8) == 0
	p.ResetOK = g.IntN(4) == 0
	p.Expire = g.IntN(4) == 0
	for i := 0; i < 2; i++ {
		c := &CallSpec{ID: i + 1, MsgLen: 12}
		if g.IntN(2) == 0 {
			c.Kind = KUnary
			c.ReqLen = 12
		} else {
			c.Kind = 1 + g.IntN(3)
			c.CSendN = 1
			c.CProg = rawClientProg(c.Kind)
			if c.Kind == KCStream && g.IntN(2) == 0 {
				// what the generated CloseAndRecv does: one RecvMsg, then the caller moves
				// on without cancelling anything
				c.CProg = []Op{{K: 's'}, {K: 'c'}, {K: 'h'}, {K: 'r', N: 1}, {K: 't'}}
			}
		}
		p.Calls = append(p.Calls, c)
	}
	n := 1 + g.IntN(4)
	if g.IntN(5) == 0 {
		n = 5 + g.IntN(36)
	}
	for i := 0; i < n; i++ {
		p.Seq = append(p.Seq, RawResp{To: g.IntN(3) - 1, Shape: g.IntN(numRShapes)})
	}
	p.Stats = g.IntN(2) == 0
	p.CloseErr = g.IntN(NumInjectedErrs)
	if g.IntN(4) == 0 {
		p.SlowPeer = true
		p.Links[0] = LinkCfg{Cap: 0, Strict: true, Serialise: p.Links[0].Serialise}
		for _, c := range p.Calls {
			if c.Kind == KBidi || c.Kind == KCStream {
				c.CSendN = 3
				c.CProg = []Op{{K: 'f', A: []Op{{K: 's', N: 3}, {K: 'c'}}, B: []Op{{K: 'h'}, {K: 'R'}, {K: 't'}}}}
			}
		}
	}
	return p
}

func execRawSrv(e *Env, pp any) {
	p := pp.(*RawSrvParams)
	sim := NewSim(e)
	for _, c := range p.Calls {
		if c != nil {
			sim.Add(c)
		}
	}
	lc := func(i int) LinkCfg {
		if i < len(p.Links) {
			c := p.Links[i]
			if p.NilKV {
				c.Serialise = false // a nil list element cannot be serialised
			}
			return c
		}
		return LinkCfg{Cap: -1}
	}
	a, b := e.NewConn("c0", lc(0), lc(1))
	obs := newSideObs(e, SideOpts{CliStats: map[bool]int{true: 1, false: 0}[p.Stats]})
	cc := goat.NewClientConn(a, clientName(0), ServerID, obs.clientOpts(0)...)
	net := &Net{E: e, CCs: []*goat.ClientConn{cc}, CEnds: []*End{a}}
	// raw server: learn the wire ids from the requests
	wire := map[int]uint64{}
	method := map[int]string{}
	rctx, rcancel := context.WithCancel(context.Background())
	e.OnTeardown(rcancel)
	stopReading := false
	resumeReading := make(chan struct{})
	e.Go("raw.reader", func() {
		for {
			histMu.Lock()
			stop := stopReading
			histMu.Unlock()
			if stop {
				select {
				case <-resumeReading:
					histMu.Lock()
					stopReading = false
					histMu.Unlock()
				case <-rctx.Done():
					return
				}
			}
			r, err := b.Read(rctx)
			if err != nil {
				return
			}
			if c := callOfEnvelope(r); c != 0 {
				histMu.Lock()
				if _, ok := wire[c]; !ok {
					wire[c] = r.GetId()
					method[c] = r.GetHeader().GetMethod()
				}
				histMu.Unlock()
			}
		}
	})
	for _, c := range p.Calls {
		if c == nil {
			continue
		}
		if p.Expire && c.Kind == KUnary {
			c.Timeout = time.Second
		}
		r := sim.Calls[c.ID]
		e.Go(fmt.Sprintf("caller.c%d", c.ID), func() { sim.RunCall(cc, r) })
	}
	// let every call get its request out
	all := func() bool {
		histMu.Lock()
		defer histMu.Unlock()
		for _, c := range p.Calls {
			if c != nil {
				if _, ok := wire[c.ID]; !ok {
					return false
				}
			}
		}
		return true
	}
	if r := e.Drive(all); r == Crashed || r == StepLimit {
		return
	}
	if !all() {
		e.Note("requests.not.all.out")
	}
	if p.SlowPeer {
		histMu.Lock()
		stopReading = true
		histMu.Unlock()
		e.Note("fault.peer.stops-reading")
	}
	if p.Expire {
		// the unary callers give up (their deadline passes) before the peer says anything
		e.Advance(2 * time.Second)
		e.NoAutoAdvance = true
		if r := e.Drive(nil); r == Crashed || r == StepLimit {
			e.NoAutoAdvance = false
			return
		}
		e.NoAutoAdvance = false
		e.Note("fault.ctx.deadline")
	}
	// what each id was sent (for the fabricated-success oracle)
	sent := map[int][][]byte{}
	okEnd := map[int]bool{} // calls that were sent an envelope ending them successfully
	seqOf := map[int]int{}
	streamOver := map[int]bool{}
	e.Go("raw.writer", func() {
		for _, rr := range p.Seq {
			e.Pt("raw.send")
			var id uint64 = 1 << 40
			callID, m := 0, methodNames[KBidi]
			if rr.To >= 0 && rr.To < len(p.Calls) && p.Calls[rr.To] != nil {
				callID = p.Calls[rr.To].ID
				histMu.Lock()
				id, m = wire[callID], method[callID]
				histMu.Unlock()
			}
			k := seqOf[callID]
			env := buildResp(rr.Shape, id, m, callID, k)
			if p.ResetOK && env.Reset_ != nil {
				env.Status = &goatorepo.ResponseStatus{Code: 0, Message: "OK"}
				if env.Trailer == nil {
					env.Trailer = &goatorepo.Trailer{}
				}
				e.Note("shape.reset+ok-status")
			}
			if p.NilKV {
				if env.Header != nil {
					env.Header.Headers = append(env.Header.Headers, nil)
				}
				if env.Trailer != nil {
					env.Trailer.Metadata = append(env.Trailer.Metadata, nil)
				}
				e.Note("shape.nil-metadata-entry")
			}
			isStream := rr.To >= 0 && rr.To < len(p.Calls) && p.Calls[rr.To] != nil && p.Calls[rr.To].Kind != KUnary
			over := isStream && streamOver[callID] // a reset or a trailer has ended this stream: nothing sent to it afterwards counts
			if carriesBody(rr.Shape) {
				seqOf[callID] = k + 1
				if !over {
					histMu.Lock()
					sent[callID] = append(sent[callID], MakePayload(callID, 'h', k, 12))
					histMu.Unlock()
				}
			}
			switch rr.Shape {
			case RTrailerNoStatus, RTrailerOK, RTrailerBadMD, RUnaryOK, RUnaryExplicitOK, RBodyTrailer:
				if !over {
					histMu.Lock()
					okEnd[callID] = true
					histMu.Unlock()
				}
			}
			if rr.Shape == RGarbageBody && !over {
				histMu.Lock()
				sent[callID] = append(sent[callID], nil) // never decodes
				histMu.Unlock()
			}
			if isStream && (env.Reset_ != nil || env.Trailer != nil) {
				histMu.Lock()
				streamOver[callID] = true
				histMu.Unlock()
			}
			e.Note("shape." + rShapeNames[rr.Shape%numRShapes])
			if b.Write(rctx, env) != nil {
				return
			}
		}
	})
	reason := e.Settle()
	if reason == Crashed || reason == StepLimit {
		return
	}
	if p.SlowPeer {
		// the peer reads again: whatever sat in the transport goes through
		close(resumeReading)
		if reason = e.Settle(); reason == Crashed || reason == StepLimit {
			return
		}
	}
	e.Note("nontrivial")
	if p.Enum > 0 {
		e.Note(fmt.Sprintf("enum.len%d", p.Enum))
	}
	// a later, ordinary unary call on the same connection, answered properly by
	// the peer: whatever the hostile envelopes were (several replies to one call,
	// replies to finished or unknown calls), it reports exactly what was addressed to it
	if p.Hostile {
		pc := &CallSpec{ID: 90, Kind: KUnary, ReqLen: 12}
		pr := sim.Add(pc)
		e.Go("caller.probe", func() { sim.RunCall(cc, pr) })
		got := func() bool { histMu.Lock(); defer histMu.Unlock(); _, ok := wire[90]; return ok }
		if r := e.Drive(got); r == Crashed || r == StepLimit {
			return
		}
		if got() {
			histMu.Lock()
			pid, pm := wire[90], method[90]
			histMu.Unlock()
			e.Go("raw.probe-answer", func() {
				e.Pt("raw.send")
				b.Write(rctx, buildResp(RUnaryOK, pid, pm, 90, 0))
			})
		}
		if r := e.Settle(); r == Crashed || r == StepLimit {
			return
		}
		switch {
		case !got():
			e.Violate("C13", "probe-not-sent", "unary.later-call", "a unary call made after the hostile sequence never put its request on the transport\n%s", e.WaitGraph())
		case !pr.Returned && abandonedLiveStream(sim):
			// the harness's own caller cut its receive loop (COverrun) and walked away from a
			// stream without cancelling it, which no caller may do; what the peer goes on
			// sending to that stream then backs up into the shared reader (the mechanism of
			// known finding F48, judged by C11's own family with a caller that cancels late)
			e.Note("later-call.behind-abandoned-stream")
		case !pr.Returned:
			e.Violate("C13", "hang", "unary.later-call", "a unary call made after the hostile sequence and answered properly by the peer has not returned\n%s", e.WaitGraph())
			e.Violate("C11", "hang", "peer-sends-more-than-expected", "an RPC started after a peer sent more than expected (to finished, abandoned or unknown calls) has not completed\n%s", e.WaitGraph())
		case pr.InvokeErr != nil:
			e.Violate("C13", "later-call-failed", "unary.later-call", "a unary call made after the hostile sequence and answered properly by the peer failed: %v", pr.InvokeErr)
		case !bytes.Equal(pr.InvokeResp, MakePayload(90, 'h', 0, 12)):
			cc2, d, sq, ok := payloadTag(pr.InvokeResp)
			e.Violate("C13", "foreign-reply", "unary.later-call", "a unary call made after the hostile sequence returned data that was not addressed to it (tag call=%d dir=%c seq=%d ok=%v, %d bytes)", cc2, d, sq, ok, len(pr.InvokeResp))
		default:
			e.Note("later-call.ok")
		}
		histMu.Lock()
		delete(sim.Calls, 90)
		for i, id := range sim.Order {
			if id == 90 {
				sim.Order = append(sim.Order[:i], sim.Order[i+1:]...)
				break
			}
		}
		histMu.Unlock()
	}
	if p.Hostile {
		// a stream the peer has ended (reset or trailer, in any shape) is over for its
		// caller too, while the connection lives: not only once it is closed
		for _, id := range sim.Order {
			r := sim.Calls[id]
			histMu.Lock()
			ov := streamOver[id]
			histMu.Unlock()
			if r.Spec.Kind != KUnary && ov && readsAll(r.Spec.CProg) && r.Started && !r.Returned {
				e.Violate("C13", "hang", "stream-ended-by-peer."+kindNames[r.Spec.Kind], "call %d: the peer has ended the stream (reset or trailer) and the connection is alive; the caller's program has not finished\n%s", id, e.WaitGraph())
			}
		}
	}
	closed := false
	if p.Close || p.Hostile {
		a.In.FailRead(InjectedErr(p.CloseErr))
		e.Note("fault.link.readFail")
		closed = true
		reason = e.Settle()
		if reason == Crashed || reason == StepLimit {
			return
		}
	}
	if p.Hostile {
		checkHostileClient(e, sim, p, sent, okEnd, closed)
		if p.Stats {
			// C20, client side only: whatever the peer sent, each client stats handler saw
			// one Begin and one End whose error is nil exactly when the caller saw success
			checkSide(&MixRun{E: e, Sim: sim, Net: net, Obs: obs, P: &MixParams{}, ClientSideOnly: true})
		}
	} else {
		checkForeign(e, sim, p, closed)
	}
	_ = net
}

// expectation for a valid foreign script
type foreignExp struct {
	bodies  int
	end     int // 0 none seen, 1 success, 2 error status, 3 reset
	unaryOK bool
	lastWithTrailer bool // the last message shares its envelope with the trailer
}

func checkForeign(e *Env, sim *Sim, p *RawSrvParams, closed bool) {
	exp := map[int]*foreignExp{}
	for _, rr := range p.Seq {
		if rr.To < 0 || rr.To >= len(p.Calls) || p.Calls[rr.To] == nil {
			continue
		}
		id := p.Calls[rr.To].ID
		x := exp[id]
		if x == nil {
			x = &foreignExp{}
			exp[id] = x
		}
		switch rr.Shape {
		case RBody:
			x.bodies++
		case RUnaryOK, RUnaryExplicitOK:
			x.bodies++
			x.end = 1
		case RBodyTrailer:
			x.bodies++
			x.end = 1
			x.lastWithTrailer = true
		case RUnaryErr, RTrailerErr:
			x.end = 2
		case RTrailerOK, RTrailerNoStatus:
			x.end = 1
		case RReset:
			x.end = 3
		}
	}
	for _, id := range sim.Order {
		r := sim.Calls[id]
		c := r.Spec
		x := exp[id]
		if x == nil {
			continue
		}
		site := kindNames[c.Kind] + "." + []string{"none", "ok", "status", "reset"}[x.end]
		if !r.Returned {
			cl := "hang"
			e.Violate("C03", cl, site, "call %d has not returned although its complete (foreign) response was sent\n%s", id, e.WaitGraph())
			e.Violate("C05", cl, site, "call %d has not returned although its complete response was sent (interleaved with %d other calls)", id, len(p.Calls)-1)
			continue
		}
		err, ok := callerErr(r)
		if !ok {
			continue
		}
		// C05: every message is the call's own, in order
		var got [][]byte
		if c.Kind == KUnary {
			if r.InvokeErr == nil {
				got = [][]byte{r.InvokeResp}
			}
		} else {
			got = r.CGot
		}
		for i, m := range got {
			if !bytes.Equal(m, MakePayload(id, 'h', i, 12)) {
				cc, d, s, _ := payloadTag(m)
				e.Violate("C05", "cross-delivery", kindNames[c.Kind], "call %d: message %d is (call=%d dir=%c seq=%d), want its own message %d", id, i, cc, d, s, i)
				break
			}
		}
		if x.end != 0 && c.Kind != KUnary && len(got) != x.bodies && (x.end == 1) {
			e.Violate("C05", "message-count", kindNames[c.Kind], "call %d: received %d messages, %d were addressed to it before the end of the stream", id, len(got), x.bodies)
		}
		if c.Kind == KCStream && x.end == 1 && x.lastWithTrailer && len(got) == 0 && r.CFinalSet {
			// what the generated CloseAndRecv returns is the first RecvMsg's result
			e.Violate("C03", "failure-on-success", "cstream.reply-with-trailer", "call %d: the peer answered the client-streaming call with its reply, OK status and trailer in one envelope (the shape README.md gives); the first RecvMsg returned %v instead of the reply", id, r.CFinal)
		}
		// C03: outcome
		switch x.end {
		case 1:
			if err != nil {
				cls := "failure-on-success"
				e.Violate("C03", cls, site, "call %d: the foreign peer completed the call successfully, caller observed %v", id, err)
			} else if c.Kind == KUnary && len(got) == 1 && !bytes.Equal(got[0], MakePayload(id, 'h', 0, 12)) {
				e.Violate("C03", "wrong-reply", site, "call %d: success with a body other than the one the reply carried", id)
			}
		case 2:
			st, isSt := status.FromError(err)
			if err == nil {
				e.Violate("C03", "success-on-failure", site, "call %d: the peer finished with status %d, caller observed success", id, errCode)
			} else if !isSt || st.Code() != codes.Code(errCode) || st.Message() != errMsg {
				e.Violate("C03", "code-mismatch", site, "call %d: peer status (%d, %q), caller observed %v", id, errCode, errMsg, err)
			}
		case 3:
			if err == nil {
				e.Violate("C03", "success-on-reset", site, "call %d: the stream was reset by the peer, caller observed success (io.EOF)", id)
			} else if st, _ := status.FromError(err); st.Code() == codes.OK {
				e.Violate("C03", "success-on-reset", site, "call %d: the stream was reset by the peer, caller observed an OK status", id)
			}
		}
		if x.end == 0 && closed {
			e.Note("foreign.unfinished-then-closed")
			if err == nil {
				e.Violate("C03", "success-on-connection-loss", site, "call %d: the peer never finished the call and the connection ended, caller observed success (io.EOF / nil)", id)
			}
		}
		if c.Kind != KUnary && r.CFinalSet && r.CFinal == io.EOF && x.end != 1 {
			e.Violate("C03", "eof-without-success", site, "call %d: io.EOF although the peer never completed the stream successfully", id)
		}
	}
}

func checkHostileClient(e *Env, sim *Sim, p *RawSrvParams, sent map[int][][]byte, okEnd map[int]bool, closed bool) {
	const prop = "C13"
	for _, id := range sim.Order {
		r := sim.Calls[id]
		c := r.Spec
		site := kindNames[c.Kind]
		if !r.Returned {
			blocked := "a call"
			for _, v := range e.W.Snapshot() {
				if !v.Done && strings.HasPrefix(v.Name, fmt.Sprintf("caller.c%d", id)) && !strings.Contains(v.Name, "/") {
					blocked = v.LastSite
				}
			}
			e.Violate(prop, "hang", hangSite(blocked), "call %d (%s) has not terminated after the connection was closed; blocked after %s\n%s", id, site, blocked, e.WaitGraph())
			continue
		}
		// success only with data that envelopes addressed to it carried
		histMu.Lock()
		mine := sent[id]
		histMu.Unlock()
		garbage := false
		for _, m := range mine {
			if m == nil {
				garbage = true
			}
		}
		var got [][]byte
		if c.Kind == KUnary {
			if r.InvokeErr == nil {
				got = [][]byte{r.InvokeResp}
			}
		} else {
			got = r.CGot
		}
		// a successful end of stream is itself something an envelope must have carried
		if c.Kind != KUnary && r.CFinalSet && r.CFinal == io.EOF && !okEnd[id] {
			e.Violate(prop, "fabricated-end-of-stream", site, "call %d: RecvMsg returned io.EOF although no envelope addressed to it ended the stream successfully (the connection was closed with %v)", id, InjectedErr(p.CloseErr))
		}
		// (a garbage body - an invalid wire type, which no message type decodes - is
		// carried by an envelope but is not data: it matches nothing a caller received)
		_ = garbage
		j := 0
		for i, m := range got {
			found := false
			for j < len(mine) {
				if mine[j] != nil && bytes.Equal(mine[j], m) {
					found = true
					j++
					break
				}
				j++
			}
			if !found {
				e.Violate(prop, "fabricated-success", site, "call %d: received message %d (%d bytes) that no envelope addressed to it carried (in order)", id, i, len(m))
				break
			}
		}
	}
}

func hangSite(last string) string {
	// keep "file:Func" of the last yield site
	parts := strings.Split(last, ":")
	if len(parts) >= 2 {
		return parts[0] + ":" + parts[1]
	}
	return last
}

// genRawHostileAt enumerates all response sequences of length <= 2 (quick) or
// <= 3 (thorough) over the 54 symbols (18 shapes x {call 1, call 2, unknown
// id}) before sampling; the two outstanding calls are drawn from the seed.
func genRawHostileAt(idx uint64, g *rand.Rand, tier string) any {
	p := genRawHostile(g, tier).(*RawSrvParams)
	if syms, ok := enumSeq(idx, uint64(numRShapes*3), enumLimit(tier)); ok {
		p.Seq = nil
		for _, s := range syms {
			p.Seq = append(p.Seq, RawResp{To: int(s%3) - 1, Shape: int(s / 3)})
		}
		p.Enum = len(syms)
	}
	return p
}

func init() {
	Register(&Family{Name: "raw.foreign", ShrinkKeys: []string{"seq"}, Props: []string{"C03", "C05"}, New: func() any { return &RawSrvParams{} }, Gen: genRawValid, Exec: execRawSrv,
		Faulty: true, FaultKinds: []string{"link.readFail"}})
	Register(&Family{Name: "raw.hostile-server", ShrinkKeys: []string{"seq"}, Props: []string{"C13", "C11", "C20"}, New: func() any { return &RawSrvParams{} }, Gen: genRawHostile, GenAt: genRawHostileAt, Exec: execRawSrv,
		Faulty: true, FaultKinds: []string{"peer.malformed", "link.readFail"}})
}

// abandonedLiveStream: some caller program stopped receiving because the peer sent far more
// than the scenario's handler could (the harness's cut-off, CallRec.COverrun) and never
// learnt how the stream ended: it left a live stream behind without cancelling it.
func abandonedLiveStream(sim *Sim) bool {
	histMu.Lock()
	defer histMu.Unlock()
	for _, id := range sim.Order {
		if r := sim.Calls[id]; r != nil && r.COverrun && !r.CFinalSet {
			return true
		}
	}
	return false
}
