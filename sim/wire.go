package verifsim

import (
	"encoding/base64"
	"fmt"
	"sort"
	"strconv"
	"strings"

	"github.com/avos-io/goat/gen/goatorepo"
	"google.golang.org/grpc/metadata"
)

// toMD is an independent decoder of wire key/values (not goat's).
func toMD(kvs []*goatorepo.KeyValue) (metadata.MD, error) {
	md := metadata.MD{}
	for _, kv := range kvs {
		k := strings.ToLower(kv.GetKey())
		v := kv.GetValue()
		if strings.HasSuffix(k, "-bin") {
			b, err := base64.URLEncoding.DecodeString(v)
			if err != nil {
				return nil, err
			}
			v = string(b)
		}
		md[k] = append(md[k], v)
	}
	return md, nil
}

func isUnaryMethod(m string) bool { return strings.HasSuffix(m, "/Unary") }

// wireEv is a tap entry with its link and direction.
type wireEv struct {
	N    int
	Rpc  *Rpc
	C2S  bool
	Link string
}

// emitted returns the merged taps of links (in global event order).
func emitted(links []*Link, c2s bool) []wireEv {
	var out []wireEv
	for _, l := range links {
		l.mu.Lock()
		for _, t := range l.Tap {
			out = append(out, wireEv{N: t.N, Rpc: t.Rpc, C2S: c2s, Link: l.Name})
		}
		l.mu.Unlock()
	}
	sort.Slice(out, func(i, j int) bool { return out[i].N < out[j].N })
	return out
}

// EmitLinks returns the links on which clients emit (c2s) and on which the
// server emits (s2c) for a Net.
func (n *Net) EmitLinks() (c2s, s2c []*Link) {
	for _, ce := range n.CEnds {
		c2s = append(c2s, ce.Out)
	}
	switch n.Spec.Kind {
	case TopoDirect:
		for _, ce := range n.CEnds {
			s2c = append(s2c, ce.In)
		}
	default:
		for _, sr := range n.Serves {
			if sr.ServerEnd != nil {
				s2c = append(s2c, sr.ServerEnd.Out)
			}
		}
		if n.Demux != nil {
			// the Demux writes server responses to the shared link
			for _, l := range n.E.links {
				if l.Name == "sh<" {
					s2c = append(s2c, l)
				}
			}
		}
	}
	return
}

func (run *MixRun) findUnaryResponse(r *CallRec) *Rpc {
	_, s2c := run.Net.EmitLinks()
	c2s, _ := run.Net.EmitLinks()
	// find the wire id of the call: the request envelope carries x-sim-call or the payload tag
	var wid uint64
	found := false
	for _, ev := range emitted(c2s, true) {
		if callOfEnvelope(ev.Rpc) == r.Spec.ID {
			wid, found = ev.Rpc.GetId(), true
			break
		}
	}
	if !found {
		return nil
	}
	src := clientName(r.Spec.Conn % len(run.Net.CCs))
	for _, ev := range emitted(s2c, false) {
		if ev.Rpc.GetId() == wid && ev.Rpc.GetHeader().GetDestination() == src {
			return ev.Rpc
		}
	}
	return nil
}

// callOfEnvelope returns the harness call id an envelope belongs to (0: unknown).
func callOfEnvelope(r *Rpc) int {
	for _, kv := range r.GetHeader().GetHeaders() {
		if strings.ToLower(kv.GetKey()) == CallKey {
			if id, err := strconv.Atoi(kv.GetValue()); err == nil {
				return id
			}
		}
	}
	return 0
}

// payloadCall extracts the call id from a BytesValue-encoded payload.
func payloadCall(body []byte) (int, bool) {
	// wrapperspb.BytesValue: field 1, wire type 2
	if len(body) < 2 || body[0] != 0x0a {
		return 0, false
	}
	i := 1
	var l, shift uint
	for ; i < len(body); i++ {
		l |= uint(body[i]&0x7f) << shift
		shift += 7
		if body[i]&0x80 == 0 {
			i++
			break
		}
	}
	if i+int(l) > len(body) {
		return 0, false
	}
	c, _, _, ok := payloadTag(body[i : i+int(l)])
	return c, ok
}

type idKey struct {
	peer string
	id   uint64
}

type c2sState struct {
	unary   bool
	opened  bool
	n       int
	trailer bool
	reset   bool
	method  string
	src     string
	dst     string
	firstN  int
	bodies  int
	lastBodyN int
}

type s2cState struct {
	n         int
	trailer   bool
	trailerN  int
	method    string
	src       string
	dst       string
	unaryDone bool
	resetBeforeTrailerN int
}

func shape(r *Rpc) string {
	var sb strings.Builder
	if r.GetHeader() != nil {
		sb.WriteString("H")
	}
	if r.GetBody() != nil {
		sb.WriteString("B")
	}
	if r.GetStatus() != nil {
		sb.WriteString("S")
	}
	if r.GetTrailer() != nil {
		sb.WriteString("T")
	}
	if r.GetReset_() != nil {
		sb.WriteString("R")
	}
	return sb.String()
}

// checkWire is oracle C06 (and the wire part of C05) over the envelopes
// emitted by goat's client(s) and server in this run. faulty relaxes only the
// "trailer required" rule to connections that stayed alive.
func checkWire(run *MixRun, faulty bool) {
	e := run.E
	c2sL, s2cL := run.Net.EmitLinks()
	checkWireLinks(e, run.Sim, c2sL, s2cL, faulty)
}

func checkWireLinks(e *Env, sim *Sim, c2sL, s2cL []*Link, connDied bool) {
	const prop = "C06"
	all := append(emitted(c2sL, true), emitted(s2cL, false)...)
	sort.Slice(all, func(i, j int) bool { return all[i].N < all[j].N })
	refusedOpen := map[uint64]bool{}
	for _, l := range c2sL {
		l.mu.Lock()
		for _, id := range l.RefusedOpens {
			refusedOpen[id] = true
		}
		l.mu.Unlock()
	}
	cs := map[idKey]*c2sState{}
	ss := map[idKey]*s2cState{}
	callOfID := map[idKey]int{}
	idOfCall := map[int]idKey{}
	for _, ev := range all {
		r := ev.Rpc
		h := r.GetHeader()
		sh := shape(r)
		if h == nil {
			e.Violate(prop, "no-header", dirName(ev.C2S), "envelope %s for id %d on %s has no header", sh, r.GetId(), ev.Link)
			continue
		}
		if ev.C2S {
			k := idKey{h.GetSource(), r.GetId()}
			st := cs[k]
			if st == nil {
				st = &c2sState{unary: isUnaryMethod(h.GetMethod()), method: h.GetMethod(), src: h.GetSource(), dst: h.GetDestination(), firstN: ev.N}
				cs[k] = st
				// C05: one id, one call
				if c := callOfEnvelope(r); c != 0 {
					if prev, dup := idOfCall[c]; dup && prev != k {
						e.Violate("C05", "call-two-ids", "client", "call %d appears under ids %d and %d", c, prev.id, k.id)
					}
					idOfCall[c] = k
					callOfID[k] = c
				}
				if st.unary {
					if sh != "HB" {
						e.Violate(prop, "unary-request-shape", "client", "unary request id %d has shape %s, want header+body", r.GetId(), sh)
					}
				} else if sh == "HR" && refusedOpen[r.GetId()] {
					// the client tried to open the stream, its context cut the write off, and
					// since a write cut off by its context says nothing about delivery it
					// resets the id: the transport had refused the open, so the reset is alone
					st.reset = true
				} else if sh != "H" {
					e.Violate(prop, "open-shape", "client", "first envelope of stream id %d has shape %s, want header only", r.GetId(), sh)
				}
				st.n = 1
				continue
			}
			st.n++
			if c := callOfEnvelope(r); c != 0 && callOfID[k] != 0 && callOfID[k] != c {
				e.Violate("C05", "id-reused", "client", "id %d (source %s) used by calls %d and %d", k.id, k.peer, callOfID[k], c)
			}
			if h.GetMethod() != st.method || h.GetSource() != st.src || h.GetDestination() != st.dst {
				e.Violate(prop, "header-changed", "client", "id %d: method/source/destination changed within the stream (%s %s->%s vs %s %s->%s)", r.GetId(), h.GetMethod(), h.GetSource(), h.GetDestination(), st.method, st.src, st.dst)
			}
			if st.unary {
				e.Violate(prop, "unary-extra-request", "client", "id %d: second client envelope %s on a unary id (id reuse or duplicate request)", r.GetId(), sh)
				if callOfEnvelope(r) != 0 {
					e.Violate("C05", "id-reused", "client", "id %d (source %s) carries two unary requests", k.id, k.peer)
				}
				continue
			}
			if st.reset {
				e.Violate(prop, "after-reset", "client", "id %d: client emitted %s after its reset", r.GetId(), sh)
				continue
			}
			switch {
			case r.GetReset_() != nil:
				st.reset = true
			case r.GetTrailer() != nil:
				if st.trailer {
					e.Violate(prop, "second-trailer", "client", "id %d: client emitted a second trailer", r.GetId())
				}
				if r.GetStatus() == nil {
					e.Violate(prop, "trailer-without-status", "client", "id %d: client trailer carries no status", r.GetId())
				}
				st.trailer = true
			case r.GetBody() != nil:
				if st.trailer {
					e.Violate(prop, "after-trailer", "client", "id %d: client emitted a body after its trailer", r.GetId())
				}
				st.bodies++
				st.lastBodyN = ev.N
				if c, ok := payloadCall(r.GetBody().GetData()); ok && callOfID[k] != 0 && c != callOfID[k] {
					e.Violate("C05", "foreign-payload", "client", "id %d of call %d carries a message of call %d", k.id, callOfID[k], c)
				}
			default:
				e.Violate(prop, "second-open", "client", "id %d: client emitted another header-only envelope", r.GetId())
			}
			continue
		}
		// server -> client
		k := idKey{h.GetDestination(), r.GetId()}
		req := cs[k]
		if req == nil {
			e.Violate(prop, "server-unknown-id", "server", "server emitted %s for id %d to %s which it has never received", sh, r.GetId(), h.GetDestination())
			continue
		}
		if h.GetSource() != req.dst || h.GetDestination() != req.src {
			e.Violate(prop, "response-not-swapped", "server", "id %d: response %s->%s for request %s->%s", r.GetId(), h.GetSource(), h.GetDestination(), req.src, req.dst)
		}
		if h.GetMethod() != req.method {
			e.Violate(prop, "response-method", "server", "id %d: response method %q, request method %q", r.GetId(), h.GetMethod(), req.method)
		}
		st := ss[k]
		if st == nil {
			st = &s2cState{method: h.GetMethod(), src: h.GetSource(), dst: h.GetDestination()}
			ss[k] = st
		}
		st.n++
		if st.n > 1 && len(h.GetHeaders()) > 0 {
			e.Violate(prop, "late-response-metadata", "server", "id %d: response metadata on envelope #%d of the id", r.GetId(), st.n)
		}
		if r.GetReset_() != nil {
			// a reset answers a body for a stream the server does not (or no longer) know
			if req.unary {
				e.Violate(prop, "reset-for-unary", "server", "id %d: server reset for a unary id", r.GetId())
			}
			if req.bodies == 0 {
				e.Violate(prop, "reset-without-body", "server", "id %d: server reset although no body had been sent for the id", r.GetId())
			}
			if !st.trailer {
				// if this stream's trailer shows up later, the reset has overtaken it
				st.resetBeforeTrailerN = ev.N
			}
			continue
		}
		if req.unary {
			if st.unaryDone {
				e.Violate(prop, "unary-second-response", "server", "id %d: second response to a unary request", r.GetId())
			}
			st.unaryDone = true
			okStatus := r.GetStatus() == nil || r.GetStatus().GetCode() == 0
			if r.GetTrailer() == nil || (r.GetBody() == nil && okStatus) {
				e.Violate(prop, "unary-response-shape", "server", "id %d: unary response has shape %s (need header, trailer and a body or a non-OK status)", r.GetId(), sh)
			}
			continue
		}
		if st.trailer {
			e.Violate(prop, "after-trailer", "server", "id %d: server emitted %s after the stream's trailer", r.GetId(), sh)
			continue
		}
		switch {
		case r.GetTrailer() != nil:
			if r.GetStatus() == nil {
				e.Violate(prop, "trailer-without-status", "server", "id %d: server trailer carries no status", r.GetId())
			}
			if st.resetBeforeTrailerN != 0 {
				e.Violate(prop, "reset-before-trailer", "server.resetStream", "id %d (call %d): the server's reset (event %d) overtook the stream's trailer (event %d)", r.GetId(), callOfID[k], st.resetBeforeTrailerN, ev.N)
			}
			st.trailer = true
			st.trailerN = ev.N
		case r.GetBody() != nil:
			if c, ok := payloadCall(r.GetBody().GetData()); ok && callOfID[k] != 0 && c != callOfID[k] {
				e.Violate("C05", "foreign-payload", "server", "id %d of call %d carries a message of call %d", k.id, callOfID[k], c)
			}
		default:
			if st.n != 1 {
				e.Violate(prop, "late-header-only", "server", "id %d: header-only envelope as #%d of the response", r.GetId(), st.n)
			}
		}
	}
	// trailer / response required
	if sim != nil && !connDied {
		for k, req := range cs {
			c := callOfID[k]
			rec := sim.Calls[c]
			if rec == nil || !rec.HReturned {
				continue
			}
			st := ss[k]
			if req.unary {
				if st == nil || !st.unaryDone {
					e.Violate(prop, "unary-no-response", "server", "id %d (call %d): handler returned but no response was emitted", k.id, c)
				}
				continue
			}
			if req.reset {
				continue
			}
			if st == nil || !st.trailer {
				site := "server"
				if rec.Ctx != nil && rec.Ctx.Err() != nil {
					// the caller's context has ended, so its teardown tried to reset the
					// stream; the reset never reached the wire (known finding F05) and the
					// server skipped the trailer because the handler's own deadline had fired
					site = "caller-context-ended-reset-not-on-wire"
				}
				e.Violate(prop, "missing-trailer", site, "id %d (call %d): handler returned on a live connection, no reset from the caller is on the wire, but no trailer was emitted", k.id, c)
			}
		}
	}
	e.Notes["wire.envelopes"] += len(all)
}

func dirName(c2s bool) string {
	if c2s {
		return "client"
	}
	return "server"
}

var _ = fmt.Sprintf
