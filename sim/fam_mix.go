package verifsim

import (
	"time"
	"bytes"
	"context"
	"errors"
	"fmt"
	"io"
	"math/rand/v2"
	"sort"
	"strconv"
	"strings"

	"google.golang.org/grpc/codes"
	"google.golang.org/grpc/metadata"
	"google.golang.org/grpc/status"
	"google.golang.org/protobuf/proto"
)

// MixParams: a fault-free workload of all four RPC kinds (C02-C06, C20).
type MixParams struct {
	Topo    TopoSpec    `json:"topo"`
	Calls   []*CallSpec `json:"calls"`
	Callers []Caller    `json:"callers"`
	Opts    SideOpts    `json:"opts"`
}

// Bias selects what a generator emphasises.
type Bias struct {
	Streams    int // percentage of streaming calls
	Errors     int // percentage of calls whose handler fails
	Metadata   int // percentage of calls with rich metadata
	MaxMsgs    int
	MaxCalls   int
	Intercept  bool
	LateRecv   bool // callers that start receiving only after the handler's burst (fault-free worlds only: the wait is on the handler)
	EarlyRet   bool // handler may return before consuming everything (bounded, see genStream)
	OKCoded    bool // some handler errors carry a gRPC status of their own whose code is OK
	AllTopos   bool
	Bounded    bool // class B programs only (the transport is a rendezvous one whatever the links say)
}

var mdKeyAlphabet = "abcdefghijklmnopqrstuvwxyz0123456789-_."

func drawKey(g *rand.Rand, bin bool) string {
	n := 1 + g.IntN(10)
	b := make([]byte, n)
	for i := range b {
		c := mdKeyAlphabet[g.IntN(len(mdKeyAlphabet))]
		if c >= 'a' && c <= 'z' && g.IntN(3) == 0 {
			c = c - 'a' + 'A'
		}
		b[i] = c
	}
	k := "k" + string(b)
	if bin {
		sfx := "-bin"
		if g.IntN(3) == 0 {
			sfx = "-BIN"
		}
		k += sfx
	}
	return k
}

func drawVal(g *rand.Rand, bin bool) string {
	if bin {
		switch g.IntN(5) {
		case 0:
			return ""
		case 1:
			return "\x00"
		case 2:
			return "\xff\x00\xfe"
		case 3:
			b := make([]byte, 256)
			for i := range b {
				b[i] = byte(g.IntN(256))
			}
			return string(b)
		default:
			b := make([]byte, g.IntN(20))
			for i := range b {
				b[i] = byte(g.IntN(256))
			}
			return string(b)
		}
	}
	n := g.IntN(24)
	b := make([]byte, n)
	for i := range b {
		b[i] = byte(0x20 + g.IntN(0x5f))
	}
	return string(b)
}

// drawMD draws a metadata set whose keys are pairwise distinct after
// lower-casing (colliding keys have no defined relative order, DESIGN C04).
func drawMD(g *rand.Rand, maxKeys int) map[string][]string {
	return drawMDSpell(g, maxKeys, nil)
}

// drawMDSpell: spell maps a lower-cased key to the spelling first used for it
// in this call, so that several SetHeader/SetTrailer calls never use two
// spellings of one key (their relative order would be map-iteration order).
func drawMDSpell(g *rand.Rand, maxKeys int, spell map[string]string) map[string][]string {
	md := map[string][]string{}
	seen := map[string]bool{}
	nk := g.IntN(maxKeys + 1)
	for i := 0; i < nk; i++ {
		bin := g.IntN(3) == 0
		k := drawKey(g, bin)
		lk := strings.ToLower(k)
		if seen[lk] || lk == CallKey || strings.HasPrefix(lk, "grpc-") {
			continue
		}
		seen[lk] = true
		if spell != nil {
			if sp, ok := spell[lk]; ok {
				k = sp
			} else {
				spell[lk] = k
			}
		}
		nv := 1 + g.IntN(4)
		for j := 0; j < nv; j++ {
			md[k] = append(md[k], drawVal(g, bin))
		}
	}
	return md
}

var statusMsgs = []string{"", "boom", "Ünïcödé ✓ 失敗", strings.Repeat("long message ", 600)}

func drawStatus(g *rand.Rand) *StatusSpec {
	sp := &StatusSpec{ErrKind: g.IntN(5), Code: 1 + g.IntN(16), Msg: statusMsgs[g.IntN(len(statusMsgs))], Details: g.IntN(4)}
	if g.IntN(12) == 0 {
		sp.ErrKind = 6 + g.IntN(2) // io.EOF, bare or wrapped: a plain error like any other
	}
	if sp.ErrKind >= 2 {
		sp.Details = 0
		if sp.Msg == "" {
			sp.Msg = "plain"
		}
	}
	return sp
}

// genStream fills the programs of a streaming call according to a pattern.
func genStream(g *rand.Rand, c *CallSpec, b Bias, classU bool) {
	maxM := b.MaxMsgs
	if maxM <= 0 {
		maxM = 6
	}
	nm := func() int {
		if g.IntN(6) == 0 {
			return 0
		}
		if g.IntN(8) == 0 {
			return g.IntN(maxM + 1)
		}
		if maxM >= 48 && g.IntN(8) == 0 {
			return 12 + g.IntN(37) // around the sizes internal queues tend to have
		}
		return g.IntN(min(maxM, 5) + 1)
	}
	// a caller that is slow to start receiving: the handler's burst piles up
	// first (only where nothing is flow-controlled)
	lateRecv := func(n int) []Op {
		if b.LateRecv && classU && n > 0 && g.IntN(4) == 0 {
			return []Op{{K: 'b'}}
		}
		return nil
	}
	c.MsgLen = 10
	if g.IntN(5) == 0 {
		c.MsgLen = drawSize(g)
	} else if g.IntN(10) == 0 {
		c.MsgLen = -1 - g.IntN(2) // -1: empty messages, zero bytes on the wire; -2: every other message empty
	}
	switch c.Kind {
	case KSStream:
		c.CSendN, c.HSendN = 1, nm()
		c.CProg = append(append([]Op{{K: 's'}, {K: 'c'}}, lateRecv(c.HSendN)...), Op{K: 'R'})
		if !classU {
			c.CProg = []Op{{K: 'f', A: []Op{{K: 's'}, {K: 'c'}}, B: []Op{{K: 'R'}}}}
		}
		c.HProg = []Op{{K: 'r'}}
		if c.HSendN > 0 {
			c.HProg = append(c.HProg, Op{K: 's', N: c.HSendN})
		}
	case KCStream:
		c.CSendN, c.HSendN = nm(), 1
		c.CProg = nil
		if c.CSendN > 0 {
			c.CProg = append(c.CProg, Op{K: 's', N: c.CSendN})
		}
		c.CProg = append(c.CProg, Op{K: 'c'}, Op{K: 'R'})
		if !classU {
			c.CProg = []Op{{K: 'f', A: c.CProg[:len(c.CProg)-1], B: []Op{{K: 'R'}}}}
		}
		c.HProg = []Op{{K: 'R'}, {K: 's'}}
	case KBidi:
		n := nm()
		pat := g.IntN(5)
		if !classU && pat == 0 {
			// with bounded transports a caller that sends everything before it
			// receives anything can exhaust the buffering (flow control, not a
			// goat defect): use the concurrent sender/receiver form instead
			pat = 4
		}
		switch pat {
		case 0: // send all, then receive; echo handler
			c.CSendN, c.HSendN = n, n
			if n > 0 {
				c.CProg = append(c.CProg, Op{K: 's', N: n})
			}
			c.CProg = append(c.CProg, Op{K: 'c'}, Op{K: 'R'})
			for i := 0; i < n; i++ {
				c.HProg = append(c.HProg, Op{K: 'r'}, Op{K: 's'})
			}
			c.HProg = append(c.HProg, Op{K: 'R'})
		case 1: // ping-pong
			c.CSendN, c.HSendN = n, n
			for i := 0; i < n; i++ {
				c.CProg = append(c.CProg, Op{K: 's'}, Op{K: 'r'})
				c.HProg = append(c.HProg, Op{K: 'r'}, Op{K: 's'})
			}
			c.CProg = append(c.CProg, Op{K: 'c'}, Op{K: 'R'})
			c.HProg = append(c.HProg, Op{K: 'R'})
		case 2: // concurrent sender and receiver; burst handler (server messages first)
			m := nm()
			c.CSendN, c.HSendN = n, m
			var a []Op
			if n > 0 {
				a = append(a, Op{K: 's', N: n})
			}
			a = append(a, Op{K: 'c'})
			c.CProg = []Op{{K: 'f', A: a, B: []Op{{K: 'R'}}}}
			if m > 0 {
				c.HProg = append(c.HProg, Op{K: 's', N: m})
			}
			c.HProg = append(c.HProg, Op{K: 'R'})
		case 3: // early half-close, reply after EOF
			m := nm()
			c.CSendN, c.HSendN = 0, m
			c.CProg = append(append([]Op{{K: 'c'}}, lateRecv(m)...), Op{K: 'R'})
			c.HProg = []Op{{K: 'R'}}
			if m > 0 {
				c.HProg = append(c.HProg, Op{K: 's', N: m})
			}
		case 4: // concurrent sender/receiver, echo handler
			c.CSendN, c.HSendN = n, n
			var a []Op
			if n > 0 {
				a = append(a, Op{K: 's', N: n})
			}
			a = append(a, Op{K: 'c'})
			c.CProg = []Op{{K: 'f', A: a, B: []Op{{K: 'R'}}}}
			for i := 0; i < n; i++ {
				c.HProg = append(c.HProg, Op{K: 'r'}, Op{K: 's'})
			}
			c.HProg = append(c.HProg, Op{K: 'R'})
		}
	}
	if b.EarlyRet && c.Kind != KSStream && c.CSendN >= 1 && g.IntN(4) == 0 {
		// handler returns before EOF: it reads k < n messages, answers, returns.
		k := g.IntN(c.CSendN)
		c.HProg = nil
		if k > 0 {
			c.HProg = append(c.HProg, Op{K: 'r', N: k})
		}
		m := 1
		if c.Kind == KBidi {
			m = g.IntN(3)
		}
		c.HSendN = m
		if m > 0 {
			c.HProg = append(c.HProg, Op{K: 's', N: m})
		}
		// client: sender and receiver concurrently (sends may fail once the
		// handler has gone)
		var a []Op
		a = append(a, Op{K: 's', N: c.CSendN}, Op{K: 'c'})
		c.CProg = []Op{{K: 'f', A: a, B: []Op{{K: 'R'}}}}
		c.Early, c.EarlyK = true, k
	}
	// ordinary client code half-closes twice now and then (an explicit CloseSend next
	// to a deferred one): the second call is legal and puts nothing on the wire
	if g.IntN(8) == 0 {
		c.CProg = dupClose(c.CProg)
	}
	if c.Kind == KSStream && g.IntN(2) == 0 {
		c.Stub = true
		if g.IntN(3) == 0 {
			// a handler (or what an auth / rate-limit interceptor does) that finishes the
			// call without reading the request: its status, and whatever metadata it
			// set, may be on their way before the caller's request has gone out
			c.HProg = nil
			c.HSendN = 0
			c.CProg = []Op{{K: 's'}, {K: 'c'}, {K: 'R'}}
			c.Early, c.EarlyK = true, 0
		}
	}
}

// dupClose repeats the first half-close of a client program right after itself.
func dupClose(prog []Op) []Op {
	for i, op := range prog {
		if op.K == 'c' {
			out := append([]Op{}, prog[:i+1]...)
			out = append(out, Op{K: 'c'})
			return append(out, prog[i+1:]...)
		}
		if op.K == 'f' {
			if a := dupClose(op.A); len(a) != len(op.A) {
				out := append([]Op{}, prog...)
				out[i].A = a
				return out
			}
		}
	}
	return prog
}

func isEarlyRet(c *CallSpec) (bool, int) {
	return c.Early, c.EarlyK
}

func addMetadataOps(g *rand.Rand, c *CallSpec) {
	c.ReqMD = drawMD(g, 16)
	c.AliasMD = g.IntN(4) == 0
	if g.IntN(4) == 0 {
		// a deadline that never fires: the server builds the handler's context along
		// another path when the request carries a timeout
		c.Timeout = time.Duration(10+g.IntN(50)) * time.Minute
	}
	hs, ts := map[string]string{}, map[string]string{}
	drawH := func(n int) map[string][]string { return drawMDSpell(g, n, hs) }
	drawT := func(n int) map[string][]string { return drawMDSpell(g, n, ts) }
	// response headers / trailers
	var pre []Op
	if c.Kind == KUnary {
		for i := g.IntN(3); i > 0; i-- {
			pre = append(pre, Op{K: 'H', MD: drawH(6)})
		}
		for i := g.IntN(3); i > 0; i-- {
			pre = append(pre, Op{K: 'T', MD: drawT(6)})
		}
		c.HProg = append(pre, c.HProg...)
		return
	}
	late := false
	if g.IntN(5) == 0 {
		// no response metadata before the first message, and an attempt to set or send
		// some right after it (the header phase ended with that message, metadata or not)
		for i, op := range c.HProg {
			if op.K == 's' && op.N >= 1 {
				lateOp := Op{K: []OpK{'L', 'M'}[g.IntN(2)], MD: drawMDSpell(g, 3, map[string]string{})}
				rest := append([]Op{}, c.HProg[i+1:]...)
				head := append(append([]Op{}, c.HProg[:i]...), Op{K: 's', N: 1}, lateOp)
				if op.N > 1 {
					head = append(head, Op{K: 's', N: op.N - 1})
				}
				c.HProg = append(head, rest...)
				late = true
				break
			}
		}
	}
	for i := g.IntN(3); i > 0 && !late; i-- {
		pre = append(pre, Op{K: 'H', MD: drawH(6)})
	}
	mode := g.IntN(3) // 0: explicit SendHeader, 1: with first message / trailer, 2: SendHeader later
	if late {
		mode = 1
	}
	if mode == 0 {
		pre = append(pre, Op{K: 'S', MD: drawH(6)})
	}
	var post []Op
	for i := g.IntN(3); i > 0; i-- {
		post = append(post, Op{K: 'T', MD: drawT(6)})
	}
	// trailers may be set at any point before return; put some before, some after the body of the program
	c.HProg = append(append(pre, c.HProg...), post...)
	// the client asks for header and trailer. Header() blocks until the first
	// response envelope: asking first is only deadlock-free when the handler
	// sends its header before it needs anything from the client, or when an
	// independent sender task exists (forked programs).
	placed := false
	if len(c.CProg) == 1 && c.CProg[0].K == 'f' {
		if g.IntN(2) == 0 {
			c.CProg[0].B = append([]Op{{K: 'h'}}, c.CProg[0].B...)
			placed = true
		}
	} else if mode == 0 && g.IntN(2) == 0 {
		c.CProg = append([]Op{{K: 'h'}}, c.CProg...)
		placed = true
	}
	if !placed {
		c.CProg = append(c.CProg, Op{K: 'h', N: 1 + g.IntN(2)})
	}
	c.CProg = append(c.CProg, Op{K: 't', N: 1 + g.IntN(3)})
}

func genMix(b Bias) func(g *rand.Rand, tier string) any {
	return func(g *rand.Rand, tier string) any {
		b := b // per evaluation: the proxy clamp below must not leak into later evaluations
		p := &MixParams{}
		if b.AllTopos {
			p.Topo.Kind = g.IntN(numTopos)
		} else if g.IntN(3) == 0 {
			p.Topo.Kind = g.IntN(numTopos)
		}
		p.Topo.Clients = 1
		if p.Topo.Kind >= TopoDemux {
			p.Topo.Clients = 1 + g.IntN(3)
		}
		if p.Topo.Kind == TopoDirect && g.IntN(4) == 0 {
			// one Server object serving several connections, each over its own transport
			p.Topo.Clients = 2 + g.IntN(2)
		}
		p.Topo.Links = drawLinks(g, 2+2*p.Topo.Clients+2)
		// class U: every link unbounded, any program shape; class B: bounded or
		// rendezvous links, programs restricted to shapes whose receivers never
		// wait for their own sends (DESIGN section 6.1: flow control is not a defect)
		classU := g.IntN(2) == 0 && !b.Bounded
		if classU {
			for i := range p.Topo.Links {
				p.Topo.Links[i].Cap = -1
			}
		}
		maxCalls := b.MaxCalls
		if maxCalls <= 0 {
			maxCalls = 8
		}
		if p.Topo.Kind == TopoProxy || p.Topo.Kind == TopoProxyDemux {
			// stay below the proxy's 16-slot per-destination buffer (C16's precondition)
			if maxCalls > 2 {
				maxCalls = 2
			}
			b.MaxMsgs = min(max(b.MaxMsgs, 1), 3)
		}
		nCallers := 1 + g.IntN(maxCalls)
		id := 1
		for c := 0; c < nCallers; c++ {
			cl := Caller{Conn: g.IntN(p.Topo.Clients)}
			nc := 1
			if g.IntN(4) == 0 {
				nc = 1 + g.IntN(3)
			}
			for j := 0; j < nc && id <= maxCalls; j++ {
				spec := &CallSpec{ID: id, Conn: cl.Conn}
				if g.IntN(100) < b.Streams {
					spec.Kind = 1 + g.IntN(3)
					genStream(g, spec, b, classU)
				} else {
					spec.Kind = KUnary
					spec.ReqLen, spec.RespLen = drawSize(g), drawSize(g)
				}
				if g.IntN(100) < b.Errors {
					spec.HStatus = drawStatus(g)
					if b.OKCoded && g.IntN(6) == 0 {
						spec.HStatus.ErrKind = 5 // an error whose own gRPC status says OK (families whose interceptors pass errors through)
						spec.HStatus.Details = 0
					}
				}
				if g.IntN(100) < b.Metadata {
					addMetadataOps(g, spec)
				}
				p.Calls = append(p.Calls, spec)
				cl.Calls = append(cl.Calls, id)
				id++
			}
			p.Callers = append(p.Callers, cl)
		}
		if b.Intercept {
			p.Opts = drawSideOpts(g)
		}
		return p
	}
}

// MixRun is the executed mix, handed to oracles.
type MixRun struct {
	E   *Env
	P   *MixParams
	Sim *Sim
	Net *Net
	Obs *SideObs
	// ClientSideOnly: the connection fails in this world; only what the client
	// side promises (interceptors once, Begin ... End with the right error) is judged
	ClientSideOnly bool
}

func execMix(e *Env, pp any) {
	p := pp.(*MixParams)
	sim := NewSim(e)
	for _, c := range p.Calls {
		if c != nil {
			sim.Add(c)
		}
	}
	obs := newSideObs(e, p.Opts)
	srv := sim.NewServer(obs.serverOpts()...)
	net := Build(e, p.Topo, srv, obs.clientOpts)
	for i, cl := range p.Callers {
		cl := cl
		e.Go(callerName(i, cl), func() {
			for _, id := range cl.Calls {
				if r := sim.Calls[id]; r != nil {
					sim.RunCall(net.CCs[cl.Conn%len(net.CCs)], r)
				}
			}
		})
	}
	reason := e.Settle()
	e.Note("topo." + topoNames[p.Topo.Kind])
	if reason == Crashed {
		return
	}
	if reason == StepLimit {
		e.Note("step_limit")
		return
	}
	run := &MixRun{E: e, P: p, Sim: sim, Net: net, Obs: obs}
	nStreams := 0
	for _, c := range p.Calls {
		if c != nil && c.Kind != KUnary {
			nStreams++
			e.Note("kind." + kindNames[c.Kind])
		}
	}
	if len(p.Calls) >= 1 {
		e.Note("nontrivial")
	}
	e.Notes["recv.window"] += e.W.EventCount("internal/client/stream.go:RecvMsg:select#0:0")
	if p.Opts.Transform {
		// interceptors rewrite request, reply and error: the plain-value oracles
		// of C01/C03 do not apply, the transformation oracle does
		checkTransform(run)
		checkStreams(run)
	} else {
		checkUnaryPairing(e, sim, "C01")
		checkUnaryOwnership(e, sim)
		checkStreams(run)
		checkStatus(run)
	}
	checkMetadata(run)
	checkWire(run, false)
	checkSide(run)
	// shutdown phase: stop the server; every Serve must return, and every
	// served connection must have seen exactly one ConnBegin and one ConnEnd
	e.Pt0()
	e.Call("server.stop", srv.Stop)
	if e.Settle() == Crashed {
		return
	}
	for _, sr := range net.Serves {
		if !sr.Returned {
			e.Violate("C10", "serve-not-returned", "stop", "Serve (%s) has not returned after Stop on an idle connection\n%s", sr.Name, e.WaitGraph())
		}
	}
	checkConnStats(run)
}

// checkUnaryOwnership (C05): a unary call's handler saw that call's request and its
// caller that call's reply - a well-formed payload of another call on either side is
// an envelope that reached somebody who does not own it.
func checkUnaryOwnership(e *Env, sim *Sim) {
	for _, id := range sim.Order {
		r := sim.Calls[id]
		if r.Spec.Kind != KUnary || !r.Started || !r.Returned {
			continue
		}
		if r.HInvoked > 1 {
			// one request envelope, one handler run: a second run means an envelope with this
			// call's id and payload was on the wire twice (in place of some other call's)
			e.Violate("C05", "request-delivered-twice", "unary.request", "call %d: its handler ran %d times for one request", id, r.HInvoked)
		}
		if r.HInvoked >= 1 && !bytes.Equal(r.HReq, r.Spec.Req) {
			if c, d, _, ok := payloadTag(r.HReq); ok && c != id {
				e.Violate("C05", "cross-delivery", "unary.request", "call %d: its handler was given the payload of call %d (dir=%c)", id, c, d)
			}
		}
		if r.InvokeErr == nil && r.Spec.HStatus == nil && r.Spec.BadReply == 0 && !bytes.Equal(r.InvokeResp, r.Spec.Resp) {
			if c, d, _, ok := payloadTag(r.InvokeResp); ok && c != id {
				e.Violate("C05", "cross-delivery", "unary.reply", "call %d: Invoke returned the payload of call %d (dir=%c)", id, c, d)
			}
		}
	}
}

func init() {
	reg := func(name string, props []string, b Bias) {
		Register(&Family{Name: name, Props: props, New: func() any { return &MixParams{} }, Gen: genMix(b), Exec: execMix, ShrinkKeys: []string{"callers"}})
	}
	reg("mix.streams", []string{"C02", "C05", "C06"}, Bias{Streams: 90, Errors: 10, Metadata: 10, MaxMsgs: 200, MaxCalls: 32, AllTopos: true, LateRecv: true})
	reg("mix.status", []string{"C03"}, Bias{Streams: 60, Errors: 75, Metadata: 5, MaxMsgs: 4, MaxCalls: 6, OKCoded: true})
	reg("mix.metadata", []string{"C04"}, Bias{Streams: 60, Errors: 25, Metadata: 100, MaxMsgs: 4, MaxCalls: 5})
	reg("mix.early", []string{"C02", "C03", "C06", "C11"}, Bias{Streams: 90, Errors: 30, Metadata: 10, MaxMsgs: 6, MaxCalls: 6, EarlyRet: true})
	reg("mix.side", []string{"C20"}, Bias{Streams: 55, Errors: 30, Metadata: 10, MaxMsgs: 4, MaxCalls: 6, Intercept: true, OKCoded: true})
	Register(&Family{Name: "mix.transform", Props: []string{"C20"}, New: func() any { return &MixParams{} }, Exec: execMix, ShrinkKeys: []string{"callers"},
		Gen: func(g *rand.Rand, tier string) any {
			p := genMix(Bias{Streams: 40, Errors: 40, Metadata: 10, MaxMsgs: 4, MaxCalls: 6, Intercept: true})(g, tier).(*MixParams)
			p.Opts.Transform = true
			if p.Opts.CliUnary+p.Opts.SrvUnary+p.Opts.SrvStream == 0 {
				p.Opts.CliUnary, p.Opts.SrvUnary, p.Opts.SrvStream = 1+g.IntN(3), 1+g.IntN(6), 1+g.IntN(6)
				p.Opts.SrvChain = true
			}
			return p
		}})
	// mix.ws: unary calls of several concurrent callers on connections that are the
	// library's own WebSocket transport on both sides (its Read and Write adapters are
	// shared by every call of the connection). Unary only: over a WebSocket the end of any
	// stream that still has a write in hand closes the connection (known finding F51,
	// family c02.ws), which in lock-step schedules includes the ordinary half-close.
	Register(&Family{Name: "mix.ws", Props: []string{"C01", "C05", "C15"}, New: func() any { return &MixParams{} }, Exec: execMix, ShrinkKeys: []string{"callers"},
		Gen: func(g *rand.Rand, tier string) any {
			p := genMix(Bias{Streams: 0, Errors: 10, Metadata: 5, MaxCalls: 16, Bounded: true})(g, tier).(*MixParams)
			p.Topo.Kind = TopoWS
			p.Topo.Clients = 1 + g.IntN(2)
			return p
		}})
	// mix.http: the same over the library's HTTP transport (one GoatOverHttp per party, POSTs
	// through an in-memory RoundTripper), unary calls and class-B streams
	Register(&Family{Name: "mix.http", Props: []string{"C01", "C02", "C05", "C15"}, New: func() any { return &MixParams{} }, Exec: execMix, ShrinkKeys: []string{"callers"},
		Gen: func(g *rand.Rand, tier string) any {
			p := genMix(Bias{Streams: 40, Errors: 10, Metadata: 5, MaxMsgs: 4, MaxCalls: 12, Bounded: true})(g, tier).(*MixParams)
			p.Topo.Kind = TopoHTTP
			p.Topo.Clients = 1 + g.IntN(2)
			return p
		}})
	reg("mix.all", []string{"C01", "C02", "C03", "C04", "C05", "C06", "C20"}, Bias{Streams: 60, Errors: 25, Metadata: 30, MaxMsgs: 8, MaxCalls: 12, Intercept: true, AllTopos: true, LateRecv: true})
}

// ---------------------------------------------------------------------------
// C02: stream delivery, order, end-of-stream.

func checkStreams(run *MixRun) {
	e, sim := run.E, run.Sim
	const prop = "C02"
	for _, id := range sim.Order {
		r := sim.Calls[id]
		c := r.Spec
		if c.Kind == KUnary {
			continue
		}
		site := kindNames[c.Kind]
		if !r.Started {
			continue // no caller task runs this call (minimised scenario)
		}
		if !r.Returned {
			e.Violate(prop, "hang", site, "call %d (%s): client program has not finished after settle\n%s", id, site, e.WaitGraph())
			continue
		}
		if r.NewStreamErr != nil {
			e.Violate(prop, "open-failed", site, "call %d: NewStream failed on a healthy connection: %v", id, r.NewStreamErr)
			continue
		}
		if r.HInvoked != 1 {
			e.Violate(prop, "handler-count", site, "call %d: stream handler ran %d times", id, r.HInvoked)
			continue
		}
		early, _ := isEarlyRet(c)
		// C05, stated separately from C02's exactness: with other calls on the
		// connection, what one side received carries only its own call's tag, and
		// its own messages never arrive in inverted order (a loss alone is not an inversion)
		if len(sim.Order) > 1 {
			for side, msgs := range [][][]byte{r.HGot, r.CGot} {
				who := []string{"handler", "caller"}[side]
				last := -1
				for i, m := range msgs {
					cc, d, sq, ok := payloadTag(m)
					if !ok {
						continue
					}
					if cc != id {
						e.Violate("C05", "cross-delivery", site, "call %d: %s message #%d belongs to call %d (dir=%c seq=%d)", id, who, i, cc, d, sq)
						break
					}
					if sq < last {
						e.Violate("C05", "per-call-order", site+"."+who, "call %d: %s received its message seq=%d after seq=%d (%d calls multiplexed)", id, who, sq, last, len(sim.Order))
						break
					}
					last = sq
				}
			}
		}
		// handler side: what it received is a prefix of what the client sent, in order
		for i, m := range r.HGot {
			if !bytes.Equal(m, sim.cmsg(c, i)) {
				cc, d, s, _ := payloadTag(m)
				e.Violate(prop, "handler-recv-mismatch", site, "call %d: handler message #%d is (call=%d dir=%c seq=%d len=%d), want client message #%d", id, i, cc, d, s, len(m), i)
				break
			}
		}
		if !early {
			if len(r.HGot) != c.CSendN {
				e.Violate(prop, "handler-recv-count", site, "call %d: handler received %d messages, client sent %d", id, len(r.HGot), c.CSendN)
			}
			// handlers that read to the end must see io.EOF (after the client's CloseSend)
			if endsWithReadAll(c.HProg) {
				if !r.HRecvFinalSet || r.HRecvFinal != io.EOF {
					e.Violate(prop, "handler-eof", site, "call %d: handler's final Recv returned %v, want io.EOF", id, r.HRecvFinal)
				}
			}
			if len(r.CSendErr) > 0 {
				e.Violate(prop, "client-send-failed", site, "call %d: SendMsg failed on a live stream: %v", id, r.CSendErr[0])
			}
		}
		// client side: exactly what the handler sent, in order, then the end
		if len(r.HSendErr) > 0 {
			e.Violate(prop, "handler-send-failed", site, "call %d: handler SendMsg failed: %v", id, r.HSendErr[0])
		}
		for i, m := range r.CGot {
			if i >= r.HSent || !bytes.Equal(m, sim.hmsg(c, i)) {
				cc, d, s, _ := payloadTag(m)
				e.Violate(prop, "client-recv-mismatch", site, "call %d: client message #%d is (call=%d dir=%c seq=%d len=%d)", id, i, cc, d, s, len(m))
				break
			}
		}
		if c.HStatus == nil && c.Timeout == 0 && c.PreDone == 0 && !hasOp(c.CProg, 'x') {
			// the caller's context lives for the whole run and the handler returned
			// success: nothing the caller calls on this stream may report a cancellation
			isCancel := func(err error) bool {
				if err == nil || err == io.EOF {
					return false
				}
				if errors.Is(err, context.Canceled) {
					return true
				}
				st, ok := status.FromError(err)
				return ok && st.Code() == codes.Canceled
			}
			for _, se := range r.CSendErr {
				if isCancel(se) {
					e.Violate(prop, "success-reported-canceled", site+".send", "call %d: handler returned nil and the caller never cancelled, but SendMsg returned %v", id, se)
					break
				}
			}
			if isCancel(r.CloseErr) {
				e.Violate(prop, "success-reported-canceled", site+".closesend", "call %d: handler returned nil and the caller never cancelled, but CloseSend returned %v", id, r.CloseErr)
			}
		}
		if r.COverrun {
			e.Violate(prop, "client-recv-overrun", site, "call %d: RecvMsg kept returning messages (%d received, the handler sent %d)", id, len(r.CGot), r.HSent)
		}
		if readsAll(c.CProg) {
			// (a client-streaming RPC has one reply, and like grpc-go the client reports a
			// failed RPC's status instead of it: the reply of a handler that then failed
			// may or may not have been handed over)
			replyOfFailedRPC := c.Kind == KCStream && c.HStatus != nil && len(r.CGot) == 0
			if len(r.CGot) != r.HSent && !replyOfFailedRPC {
				e.Violate(prop, "client-recv-count", site, "call %d: client received %d messages, handler sent %d (final=%v)", id, len(r.CGot), r.HSent, r.CFinal)
			}
			if !r.CFinalSet {
				e.Violate(prop, "client-no-end", site, "call %d: client never saw the end of the stream", id)
			} else if c.HStatus == nil {
				if r.CFinal != io.EOF {
					cls := "client-end-not-eof"
					if st, ok := status.FromError(r.CFinal); ok && st.Code() == codes.Canceled {
						cls = "success-reported-canceled"
					}
					e.Violate(prop, cls, site, "call %d: handler returned nil but the client's final Recv returned %v", id, r.CFinal)
				}
			} else if r.CFinal == io.EOF {
				e.Violate(prop, "client-eof-on-failure", site, "call %d: handler failed but client saw io.EOF", id)
			}
		}
	}
}

func endsWithReadAll(p []Op) bool {
	for i := len(p) - 1; i >= 0; i-- {
		switch p[i].K {
		case 'R':
			return true
		case 'T', 'H', 'S', 'y':
			continue
		default:
			// a send after the read-all is fine (reply after EOF)
			if p[i].K == 's' {
				continue
			}
			return false
		}
	}
	return false
}

func readsAll(p []Op) bool {
	for _, op := range p {
		if op.K == 'R' {
			return true
		}
		if op.K == 'f' && (readsAll(op.A) || readsAll(op.B)) {
			return true
		}
	}
	return false
}

// ---------------------------------------------------------------------------
// C03: handler status = caller status.

func callerErr(r *CallRec) (error, bool) {
	if r.Spec.Kind == KUnary {
		return r.InvokeErr, r.Returned
	}
	if r.CFinalSet {
		if r.CFinal == io.EOF {
			return nil, true
		}
		return r.CFinal, true
	}
	return nil, false
}

func checkStatus(run *MixRun) {
	e, sim := run.E, run.Sim
	const prop = "C03"
	for _, id := range sim.Order {
		r := sim.Calls[id]
		c := r.Spec
		site := kindNames[c.Kind]
		if !r.Returned || r.NewStreamErr != nil {
			continue // C01/C02 report it
		}
		if c.Kind != KUnary && !readsAll(c.CProg) {
			continue
		}
		got, ok := callerErr(r)
		if !ok {
			continue
		}
		want := c.HStatus.Err()
		if want == nil {
			if got != nil {
				e.Violate(prop, "failure-on-success", site, "call %d: handler returned nil, caller observed %v", id, got)
			}
			continue
		}
		if got == nil {
			e.Violate(prop, "success-on-failure", site, "call %d: handler returned %v, caller observed success", id, want)
			continue
		}
		if hs, _ := status.FromError(c.HStatus.inner()); c.Kind != KUnary && c.HStatus.ErrKind <= 2 && c.Timeout == 0 && c.PreDone == 0 && !hasOp(c.CProg, 'x') &&
			hs.Code() != codes.Canceled && hs.Code() != codes.DeadlineExceeded {
			// the caller's context lives for the whole run and the handler failed with a
			// status of its own: what the caller's sends and its half-close report is that
			// status (or nothing) - never a context error, which is what the generated
			// CloseAndRecv / Send would hand to the application instead of the status
			isCtx := func(err error) bool {
				if err == nil || err == io.EOF {
					return false
				}
				if errors.Is(err, context.Canceled) || errors.Is(err, context.DeadlineExceeded) {
					return true
				}
				st, ok := status.FromError(err)
				return ok && (st.Code() == codes.Canceled || st.Code() == codes.DeadlineExceeded)
			}
			if isCtx(r.CloseErr) {
				e.Violate(prop, "context-error-for-handler-status", site+".closesend", "call %d: the handler failed with %v and the caller never cancelled, but CloseSend returned %v", id, want, r.CloseErr)
			}
			for _, se := range r.CSendErr {
				if isCtx(se) {
					e.Violate(prop, "context-error-for-handler-status", site+".send", "call %d: the handler failed with %v and the caller never cancelled, but SendMsg returned %v", id, want, se)
					break
				}
			}
		}
		if c.Kind == KCStream && len(r.CGot) > 0 {
			// A client-streaming call has one reply, and the generated stub's
			// CloseAndRecv is one RecvMsg: if that RecvMsg hands back the reply with a
			// nil error, the application is told the RPC succeeded (grpc-go's RecvMsg
			// reads on to the status for exactly this reason)
			e.Violate(prop, "success-on-failure", "cstream.first-recv", "call %d: the handler replied and then failed with %v; the caller's first RecvMsg returned the reply with a nil error, which is what CloseAndRecv reports", id, want)
		}
		gs, isStatus := status.FromError(got)
		if !isStatus {
			e.Violate(prop, "not-a-status", site, "call %d: caller error %v (%T) is not a gRPC status", id, got, got)
			continue
		}
		switch c.HStatus.ErrKind {
		case 0, 1:
			ws, _ := status.FromError(c.HStatus.inner())
			if gs.Code() != ws.Code() {
				e.Violate(prop, "code-mismatch", site, "call %d: handler code %v, caller code %v", id, ws.Code(), gs.Code())
			}
			if c.HStatus.ErrKind == 0 {
				if gs.Message() != ws.Message() {
					e.Violate(prop, "message-mismatch", site, "call %d: handler message %q, caller message %q", id, trunc(ws.Message()), trunc(gs.Message()))
				}
			} else if !strings.Contains(gs.Message(), ws.Message()) {
				e.Violate(prop, "message-mismatch", site, "call %d: caller message %q does not contain %q", id, trunc(gs.Message()), trunc(ws.Message()))
			}
			wd, gd := ws.Proto().GetDetails(), gs.Proto().GetDetails()
			if len(wd) != len(gd) {
				e.Violate(prop, "details-mismatch", site, "call %d: handler sent %d details, caller got %d", id, len(wd), len(gd))
			} else {
				for i := range wd {
					if !proto.Equal(wd[i], gd[i]) {
						e.Violate(prop, "details-mismatch", site, "call %d: detail %d differs", id, i)
					}
				}
			}
		default:
			if gs.Code() == codes.OK {
				e.Violate(prop, "success-on-failure", site, "call %d: non-status error surfaced with code OK", id)
			}
			text := want.Error()
			if c.HStatus.ErrKind == 5 {
				text = c.HStatus.Msg // the error carries a status of its own: its message is the text
			}
			if !strings.Contains(gs.Message(), text) {
				e.Violate(prop, "error-text-lost", site, "call %d: caller status message %q does not carry the error text %q", id, trunc(gs.Message()), trunc(text))
			}
		}
	}
}

func (sp *StatusSpec) inner() error {
	c := *sp
	c.ErrKind = 0
	return c.Err()
}

func trunc(s string) string {
	if len(s) > 80 {
		return s[:80] + "..."
	}
	return s
}

// ---------------------------------------------------------------------------
// C04: metadata.

// joinOps is the metadata the handler set through ops of kind k (in order).
func joinOps(p []Op, kinds string) metadata.MD {
	var mds []metadata.MD
	for _, op := range p {
		if strings.IndexByte(kinds, byte(op.K)) >= 0 {
			mds = append(mds, mdOf(op.MD))
		}
	}
	return metadata.Join(mds...)
}

func lowerMD(md metadata.MD) metadata.MD {
	out := metadata.MD{}
	for k, v := range md {
		lk := strings.ToLower(k)
		out[lk] = append(out[lk], v...)
	}
	return out
}

func mdEqual(want, got metadata.MD, ignore ...string) string {
	w, g := lowerMD(want), lowerMD(got)
	for _, k := range ignore {
		delete(w, k)
		delete(g, k)
	}
	var keys []string
	for k := range w {
		keys = append(keys, k)
	}
	for k := range g {
		if _, ok := w[k]; !ok {
			keys = append(keys, k)
		}
	}
	sort.Strings(keys)
	for _, k := range keys {
		wv, gv := w[k], g[k]
		if len(wv) == 0 && len(gv) == 0 {
			continue
		}
		if len(wv) != len(gv) {
			return fmt.Sprintf("key %q: want %d values, got %d", k, len(wv), len(gv))
		}
		for i := range wv {
			if wv[i] != gv[i] {
				return fmt.Sprintf("key %q value %d: want %q, got %q", k, i, trunc(wv[i]), trunc(gv[i]))
			}
		}
	}
	return ""
}

func hasOp(p []Op, k OpK) bool {
	for _, op := range p {
		if op.K == k {
			return true
		}
		if op.K == 'f' && (hasOp(op.A, k) || hasOp(op.B, k)) {
			return true
		}
	}
	return false
}

func checkMetadata(run *MixRun) {
	e, sim := run.E, run.Sim
	const prop = "C04"
	for _, id := range sim.Order {
		r := sim.Calls[id]
		c := r.Spec
		site := kindNames[c.Kind]
		if r.Started && r.Returned && r.HInvoked == 0 && len(c.ReqMD) > 0 && c.Timeout == 0 {
			// a fault-free world: a call that carries metadata and never reaches its
			// handler did not deliver that metadata (e.g. rejected as undecodable)
			err, _ := callerErr(r)
			if c.Kind != KUnary && r.NewStreamErr != nil {
				err = r.NewStreamErr
			}
			e.Violate(prop, "request-metadata-not-delivered", site, "call %d carried %d metadata keys; its handler never ran and the caller got: %v", id, len(c.ReqMD), err)
		}
		if !r.Returned || r.HInvoked != 1 {
			continue
		}
		if d := mdEqual(mdOf(c.ReqMD), r.HReqMD, CallKey, "grpc-timeout", icptKey); d != "" {
			e.Violate(prop, "request-metadata", site, "call %d: handler's incoming metadata differs: %s", id, d)
		}
		if len(c.ReqMD) > 0 {
			e.Note("md.request")
		}
		if c.Kind == KUnary {
			// response headers/trailers of unary calls are observable on the wire
			// and through a client stats handler (C20 family); here: the wire.
			wantH, wantT := joinOps(c.HProg, "HS"), joinOps(c.HProg, "T")
			if len(wantH) == 0 && len(wantT) == 0 {
				continue
			}
			resp := run.findUnaryResponse(r)
			if resp == nil {
				continue
			}
			gh, err := toMD(resp.GetHeader().GetHeaders())
			if err != nil {
				e.Violate(prop, "response-header", site, "call %d: undecodable response header on the wire: %v", id, err)
			} else if d := mdEqual(wantH, gh); d != "" {
				e.Violate(prop, "response-header", site, "call %d (unary): response headers on the wire differ: %s", id, d)
			}
			gt, err := toMD(resp.GetTrailer().GetMetadata())
			if err != nil {
				e.Violate(prop, "response-trailer", site, "call %d: undecodable trailer on the wire: %v", id, err)
			} else if d := mdEqual(wantT, gt); d != "" {
				e.Violate(prop, "response-trailer", site, "call %d (unary): trailers on the wire differ: %s", id, d)
			}
			// ... and what the caller can see of them: Invoke takes no call options, a
			// client stats handler's InHeader event is the one place where the headers of a
			// unary reply surface - whatever status the reply carries
			if run.Obs != nil && len(wantH) > 0 {
				for _, h := range run.Obs.Stats {
					if h.side != 'c' {
						continue
					}
					for _, t := range h.tags {
						if t.Call != id || t.Tag == 0 {
							continue
						}
						seen, ok := false, false
						for _, ev := range t.Events {
							if ev.Kind == "InHeader" {
								seen = true
								if mdEqual(wantH, ev.MD, icptKey) == "" {
									ok = true
								}
							}
						}
						if !ok {
							e.Violate(prop, "response-header", "unary.client-stats", "call %d (unary, handler status %v): client stats handler %d saw the reply's headers as an InHeader event: %v, matching what the handler set: %v", id, c.HStatus.Err(), h.idx, seen, ok)
						}
					}
				}
				e.Note("md.unary.client-stats")
			}
			e.Note("md.unary.response")
			continue
		}
		if r.CStubDropped {
			// the generated code returned (nil, err): whatever the handler set cannot be read
			if wh, wt := joinOps(c.HProg, "HS"), joinOps(c.HProg, "T"); len(wh)+len(wt) > 0 && r.HReturned {
				e.Violate(prop, "metadata-unreachable", "sstream.generated-stub", "call %d: the handler set %d header and %d trailer keys and finished (%v) before the caller's request went out; SendMsg / CloseSend returned an error, on which the generated code for a server-streaming method returns (nil, err): the caller has no stream to ask for Header() or Trailer()", id, len(wh), len(wt), r.HRetErr)
			}
			e.Note("md.stub-dropped")
			continue
		}
		if r.CHeaderSet {
			want := joinOps(c.HProg, "HS")
			if r.CHeaderErr != nil {
				e.Violate(prop, "header-error", site, "call %d: Header() returned %v", id, r.CHeaderErr)
			} else if d := mdEqual(want, r.CHeader); d != "" {
				e.Violate(prop, "response-header", site, "call %d: Header() differs from what the handler set: %s", id, d)
			}
			switch {
			case hasOp(c.HProg, 'S'):
				e.Note("md.header.explicit")
			case r.HSent > 0:
				e.Note("md.header.with-first-message")
			default:
				e.Note("md.header.with-trailer")
			}
		}
		if r.CTrailerSet && r.CFinalSet {
			want := joinOps(c.HProg, "T")
			if d := mdEqual(want, r.CTrailer); d != "" {
				e.Violate(prop, "response-trailer", site, "call %d: Trailer() differs from what the handler set: %s", id, d)
			}
			e.Note("md.trailer")
			for k, again := range r.CTrailerAgain {
				if d := mdEqual(want, again); d != "" {
					e.Violate(prop, "response-trailer-reread", site, "call %d: Trailer() read again (read %d) differs from what the handler set: %s", id, k+2, d)
					break
				}
				e.Note("md.trailer.reread")
			}
		}
		if r.CHeaderSet && r.CHeaderErr == nil {
			want := joinOps(c.HProg, "HS")
			for k, again := range r.CHeaderAgain {
				if d := mdEqual(want, again); d != "" {
					e.Violate(prop, "response-header-reread", site, "call %d: Header() read again (read %d) differs from what the handler set: %s", id, k+2, d)
					break
				}
			}
		}
	}
}

var errNoResp = errors.New("no response")

// checkTransform (C20): "what interceptors change (request, reply, error) is
// what the next stage and finally the peer observes". The test interceptors
// append "|c<i>" / "|s<i>" to the request on the way in and to the reply or
// the status message on the way out (side.go), so the expected values follow
// from the configured chain lengths alone.
func checkTransform(run *MixRun) {
	e, sim, o := run.E, run.Sim, run.P.Opts
	const prop = "C20"
	tags := func(side string, n int, reverse bool) string {
		var b strings.Builder
		for i := 0; i < n; i++ {
			k := i
			if reverse {
				k = n - 1 - i
			}
			b.WriteString("|" + side + strconv.Itoa(k))
		}
		return b.String()
	}
	for _, id := range sim.Order {
		r := sim.Calls[id]
		c := r.Spec
		if !r.Started || !r.Returned || r.NewStreamErr != nil {
			continue
		}
		site := "transform." + kindNames[c.Kind]
		nSrv, nCli := o.SrvStream, 0
		if c.Kind == KUnary {
			nSrv, nCli = o.SrvUnary, o.CliUnary
			if r.HInvoked != 1 {
				e.Violate(prop, "handler-count", site, "call %d: handler ran %d times", id, r.HInvoked)
				continue
			}
			wantReq := append(append([]byte{}, c.Req...), []byte(tags("c", nCli, false)+tags("s", nSrv, false))...)
			if !bytes.Equal(r.HReq, wantReq) {
				e.Violate(prop, "request-transformation-lost", site, "call %d: the handler saw a %d-byte request ending %q; the %d client and %d server interceptors make it end %q",
					id, len(r.HReq), tail(r.HReq, 24), nCli, nSrv, tail(wantReq, 24))
			}
			if c.HStatus == nil {
				wantResp := append(append([]byte{}, c.Resp...), []byte(tags("s", nSrv, true)+tags("c", nCli, true))...)
				if r.InvokeErr != nil {
					e.Violate(prop, "failure-on-success", site, "call %d: handler returned nil, caller observed %v", id, r.InvokeErr)
				} else if !bytes.Equal(r.InvokeResp, wantResp) {
					e.Violate(prop, "reply-transformation-lost", site, "call %d: the caller got a %d-byte reply ending %q, want ending %q", id, len(r.InvokeResp), tail(r.InvokeResp, 24), tail(wantResp, 24))
				}
				e.Note("transform.unary.ok")
				continue
			}
		}
		if c.HStatus == nil {
			continue // streams: data is not rewritten, checkStreams judges it
		}
		if c.Kind != KUnary && !readsAll(c.CProg) {
			continue
		}
		got, ok := callerErr(r)
		if !ok {
			continue
		}
		if got == nil {
			e.Violate(prop, "success-on-failure", site, "call %d: handler returned %v, caller observed success", id, c.HStatus.Err())
			continue
		}
		gs, isStatus := status.FromError(got)
		if !isStatus {
			e.Violate(prop, "not-a-status", site, "call %d: caller error %v (%T) is not a gRPC status", id, got, got)
			continue
		}
		suffix := tags("s", nSrv, true) + tags("c", nCli, true)
		if nSrv > 0 || c.HStatus.ErrKind == 0 {
			// the innermost server interceptor turns the handler's error into a
			// status with status.FromError, exactly as computed here
			st0, _ := status.FromError(c.HStatus.Err())
			if gs.Code() != st0.Code() || gs.Message() != st0.Message()+suffix {
				e.Violate(prop, "error-transformation-lost", site, "call %d: caller status (%v, %q); the interceptors make it (%v, %q)", id, gs.Code(), trunc(gs.Message()), st0.Code(), trunc(st0.Message()+suffix))
			}
		} else if !strings.HasSuffix(gs.Message(), suffix) {
			e.Violate(prop, "error-transformation-lost", site, "call %d: caller status message %q does not end with the interceptors' trail %q", id, trunc(gs.Message()), suffix)
		}
		e.Note("transform.error")
	}
}

func tail(b []byte, n int) string {
	if len(b) > n {
		b = b[len(b)-n:]
	}
	return string(b)
}
