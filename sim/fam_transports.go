package verifsim

import (
	"bytes"
	"context"
	"errors"
	"fmt"
	"io"
	"math/rand/v2"
	"net"
	"net/http"
	"net/http/httptest"
	"strings"
	"sync"
	"time"

	"github.com/avos-io/goat/gen/goatorepo"
	"github.com/coder/websocket"
	"google.golang.org/protobuf/proto"
	"google.golang.org/protobuf/types/known/anypb"
	"google.golang.org/protobuf/types/known/wrapperspb"

	goat "github.com/avos-io/goat"
)

// C19: the shipped transports (channel.go, websocket.go over real
// coder/websocket on net.Pipe, http.go with an in-memory round tripper).

type TransportParams struct {
	Kind     int      `json:"kind"`     // 0 channel, 1 websocket, 2 http
	EnvSeeds []uint64 `json:"envs"`     // envelope values, regenerated from these
	Buf      int      `json:"buf"`      // channel transport: channel capacity
	Mode     int      `json:"mode"`     // 0 round trip, 1 blocked Read/Write + cancel, 2 raw / malformed input, 3 http idle timeout
	Raw      []RawIn  `json:"raw"`
	TickAt   int      `json:"tick_at"`  // http idle: driver steps into the delivery at which the clock jumps
	BigBody  bool     `json:"big_body"`
}

type RawIn struct {
	Kind int    `json:"kind"` // ws: 0 text frame, 1 random bytes, 2 truncated valid, 3 bit-flipped valid; http: 0 nil body, 1 unreadable body, 2 undecodable, 3 no header, 4 empty source, 5 source rejected, 6 valid
	Seed uint64 `json:"seed"`
}

var nonASCII = []string{"", "plain", "Ünïcödé", "日本語/メソッド", "/svc/Method", "😀", strings.Repeat("x", 300)}

// genEnvelope draws an envelope value: every present/absent combination of the
// sub-messages, ids across the uint64 range, bodies up to 1 MiB.
func genEnvelope(seed uint64, needSource bool, big bool) *Rpc {
	g := rand.New(rand.NewPCG(seed, 19))
	r := &Rpc{}
	switch g.IntN(6) {
	case 0:
		r.Id = 0
	case 1:
		r.Id = 1
	case 2:
		r.Id = 1 << 31
	case 3:
		r.Id = 1 << 63
	case 4:
		r.Id = ^uint64(0)
	default:
		r.Id = g.Uint64()
	}
	kv := func() []*goatorepo.KeyValue {
		var out []*goatorepo.KeyValue
		for i := g.IntN(5); i > 0; i-- {
			out = append(out, &goatorepo.KeyValue{Key: nonASCII[g.IntN(len(nonASCII))], Value: nonASCII[g.IntN(len(nonASCII))]})
		}
		return out
	}
	mask := g.IntN(32)
	if needSource {
		mask |= 1
	}
	if mask&1 != 0 {
		r.Header = &goatorepo.RequestHeader{Method: nonASCII[g.IntN(len(nonASCII))], Source: nonASCII[g.IntN(len(nonASCII))],
			Destination: nonASCII[g.IntN(len(nonASCII))], Headers: kv()}
		for i := g.IntN(3); i > 0; i-- {
			r.Header.ProxyRecord = append(r.Header.ProxyRecord, nonASCII[g.IntN(len(nonASCII))])
		}
		for i := g.IntN(3); i > 0; i-- {
			r.Header.ProxyNext = append(r.Header.ProxyNext, nonASCII[g.IntN(len(nonASCII))])
		}
		if needSource {
			r.Header.Source = "peer-a"
		}
	}
	if mask&2 != 0 {
		r.Status = &goatorepo.ResponseStatus{Code: int32(g.IntN(17)), Message: nonASCII[g.IntN(len(nonASCII))]}
		for i := g.IntN(3); i > 0; i-- {
			a, _ := anypb.New(wrapperspb.Bytes([]byte{byte(i), 0, 0xff}))
			r.Status.Details = append(r.Status.Details, a)
		}
	}
	if mask&4 != 0 {
		n := []int{0, 1, 100, 4096, 65536}[g.IntN(5)]
		if big && g.IntN(3) == 0 {
			n = 1 << 20
		}
		b := make([]byte, n)
		for i := range b {
			b[i] = byte(g.IntN(256))
		}
		r.Body = &goatorepo.Body{Data: b}
	}
	if mask&8 != 0 {
		r.Trailer = &goatorepo.Trailer{Metadata: kv()}
	}
	if mask&16 != 0 {
		r.Reset_ = &goatorepo.Reset{Type: nonASCII[g.IntN(len(nonASCII))]}
	}
	return r
}

func genTransport(g *rand.Rand, tier string) any {
	p := &TransportParams{Kind: g.IntN(3), Buf: g.IntN(4)}
	n := 1 + g.IntN(8)
	for i := 0; i < n; i++ {
		p.EnvSeeds = append(p.EnvSeeds, g.Uint64())
	}
	p.BigBody = g.IntN(8) == 0
	switch p.Kind {
	case 0:
		p.Mode = g.IntN(3)
	case 1:
		p.Mode = g.IntN(3)
	case 2:
		p.Mode = g.IntN(9)
	}
	if p.Mode == 2 {
		m := 1 + g.IntN(5)
		for i := 0; i < m; i++ {
			k := g.IntN(8)
			if p.Kind == 2 {
				k = g.IntN(8)
			}
			p.Raw = append(p.Raw, RawIn{Kind: k, Seed: g.Uint64()})
		}
	}
	p.TickAt = g.IntN(60)
	return p
}

func execTransport(e *Env, pp any) {
	p := pp.(*TransportParams)
	switch p.Kind % 3 {
	case 0:
		execChannelTransport(e, p)
	case 1:
		execWebsocketTransport(e, p)
	default:
		execHTTPTransport(e, p)
	}
}

// roundTrip writes envs on w and reads them on r concurrently; oracle: equal, in order.
func roundTrip(e *Env, name string, w, r goat.RpcReadWriter, envs []*Rpc) {
	const prop = "C19"
	ctx, cancel := context.WithCancel(context.Background())
	e.OnTeardown(cancel)
	var got []*Rpc
	var rerr, werr error
	wdone, rdone := false, false
	e.Go(name+".writer", func() {
		for _, env := range envs {
			e.Pt("t.write")
			if err := w.Write(ctx, proto.Clone(env).(*Rpc)); err != nil {
				werr = err
				break
			}
			e.Log("t.written."+shape(env), name, 0, "")
		}
		wdone = true
	})
	e.Go(name+".reader", func() {
		for range envs {
			e.Pt("t.read")
			m, err := r.Read(ctx)
			if err != nil {
				rerr = err
				break
			}
			got = append(got, m)
			e.Log("t.read", name, 0, "")
		}
		rdone = true
	})
	if rr := e.Settle(); rr == Crashed || rr == StepLimit {
		return
	}
	e.Note("nontrivial")
	if !wdone || !rdone {
		e.Violate(prop, "hang", name, "round trip of %d envelopes did not finish (writer done %v, reader done %v)\n%s", len(envs), wdone, rdone, e.WaitGraph())
		return
	}
	if werr != nil || rerr != nil {
		e.Violate(prop, "error", name, "round trip failed: write error %v, read error %v", werr, rerr)
		return
	}
	for i := range envs {
		if i >= len(got) || !proto.Equal(envs[i], got[i]) {
			e.Violate(prop, "altered", name, "envelope %d read on the other end differs from what was written (shape %s, id %d, body %d bytes)", i, shape(envs[i]), envs[i].GetId(), len(envs[i].GetBody().GetData()))
			return
		}
	}
	for _, env := range envs {
		if len(env.GetBody().GetData()) >= 1<<20 {
			e.Note("body.1MiB")
		}
	}
	e.Note("roundtrip." + name)
}

// blockedOps: a Read and a Write that cannot make progress must return once
// their context is done.
func blockedOps(e *Env, name string, blockedReader, blockedWriter goat.RpcReadWriter) {
	const prop = "C19"
	ctx, cancel := context.WithCancel(context.Background())
	e.OnTeardown(cancel)
	rret, wret := false, false
	var rerr, werr error
	if blockedReader != nil {
		e.Go(name+".blocked-reader", func() {
			e.Pt("t.read")
			_, rerr = blockedReader.Read(ctx)
			rret = true
		})
	}
	if blockedWriter != nil {
		e.Go(name+".blocked-writer", func() {
			e.Pt("t.write")
			for i := 0; i < 64 && werr == nil; i++ { // until buffers are full
				werr = blockedWriter.Write(ctx, &Rpc{Id: uint64(i), Header: &goatorepo.RequestHeader{Source: "peer-a"}, Body: &goatorepo.Body{Data: make([]byte, 70000)}})
			}
			wret = true
		})
	}
	e.NoAutoAdvance = true
	if rr := e.Drive(nil); rr == Crashed || rr == StepLimit {
		return
	}
	e.NoAutoAdvance = false
	blockedR, blockedW := blockedReader != nil && !rret, blockedWriter != nil && !wret
	cancel()
	e.Note("fault.ctx.cancel")
	if rr := e.Settle(); rr == Crashed || rr == StepLimit {
		return
	}
	e.Note("nontrivial")
	if blockedR {
		e.Note("blocked.read")
		if !rret {
			e.Violate(prop, "read-ignores-context", name, "a blocked Read did not return after its context was cancelled\n%s", e.WaitGraph())
		} else if rerr == nil {
			e.Violate(prop, "read-ignores-context", name, "a blocked Read returned without error after its context was cancelled")
		}
	}
	if blockedW {
		e.Note("blocked.write")
		if !wret {
			e.Violate(prop, "write-ignores-context", name, "a blocked Write did not return after its context was cancelled\n%s", e.WaitGraph())
		}
	}
}

func envsOf(p *TransportParams, needSource bool) []*Rpc {
	var out []*Rpc
	for _, s := range p.EnvSeeds {
		out = append(out, genEnvelope(s, needSource, p.BigBody))
	}
	return out
}

func execChannelTransport(e *Env, p *TransportParams) {
	n := p.Buf
	if n < 0 {
		n = 0
	}
	ab, ba := make(chan *goat.Rpc, n), make(chan *goat.Rpc, n)
	a := goat.NewGoatOverChannel(ba, ab)
	b := goat.NewGoatOverChannel(ab, ba)
	switch p.Mode % 3 {
	case 0:
		roundTrip(e, "channel", a, b, envsOf(p, false))
	case 1:
		blockedOps(e, "channel", b, a)
	default:
		cancelledReads(e, "channel", a, b, envsOf(p, false))
	}
}

// cancelledReads: reads whose context is already done, or is cancelled at a
// moment the scheduler chooses, are mixed with reads on a live context while
// the peer writes. A Read either returns an envelope or an error; an envelope
// is never taken off the transport and dropped: what all reads returned, in
// order, is exactly what was written.
func cancelledReads(e *Env, name string, w, r goat.RpcReadWriter, envs []*Rpc) {
	const prop = "C19"
	ctx, cancel := context.WithCancel(context.Background())
	e.OnTeardown(cancel)
	e.Go(name+".writer", func() {
		for _, m := range envs {
			e.Pt("t.write")
			if w.Write(ctx, m) != nil {
				return
			}
		}
	})
	var got []*Rpc
	failed := 0
	e.Go(name+".reader", func() {
		for attempt := 0; len(got) < len(envs); attempt++ {
			e.Pt("t.read")
			rctx := ctx
			if attempt < 3*len(envs)+4 {
				switch attempt % 3 {
				case 0: // context done before the Read
					c, cc := context.WithCancel(ctx)
					cc()
					rctx = c
				case 1: // cancelled while the Read is under way
					c, cc := context.WithCancel(ctx)
					rctx = c
					e.Go(fmt.Sprintf("%s.canceller%d", name, attempt), func() {
						e.Pt("t.cancel")
						cc()
					})
				}
			}
			m, err := r.Read(rctx)
			if err != nil {
				failed++
				if rctx == ctx {
					return
				}
				continue
			}
			got = append(got, m)
		}
	})
	if rr := e.Settle(); rr == Crashed || rr == StepLimit {
		return
	}
	e.Note("nontrivial")
	e.Note("cancelled-reads." + name)
	if failed > 0 {
		e.Note("fault.ctx.cancel")
	}
	for i, m := range got {
		if i >= len(envs) || !proto.Equal(m, envs[i]) {
			e.Violate(prop, "lost-or-reordered-on-cancelled-read", name, "read #%d returned envelope id %d; envelope #%d written was id %d (%d reads failed on their context before): an envelope was taken off the transport and dropped, or order was lost", i, m.GetId(), i, idAt(envs, i), failed)
			return
		}
	}
	if len(got) != len(envs) {
		e.Violate(prop, "lost-or-reordered-on-cancelled-read", name, "%d envelopes were written, the reads returned %d (%d reads failed on their context): a Read that reported an error had consumed an envelope\n%s", len(envs), len(got), failed, e.WaitGraph())
	}
}

func idAt(envs []*Rpc, i int) uint64 {
	if i < len(envs) {
		return envs[i].GetId()
	}
	return 0
}

// pipeListener hands out the server side of net.Pipe connections.
type pipeListener struct {
	ch     chan net.Conn
	closed chan struct{}
	once   sync.Once
}

func (l *pipeListener) Accept() (net.Conn, error) {
	select {
	case c := <-l.ch:
		return c, nil
	case <-l.closed:
		return nil, net.ErrClosed
	}
}
func (l *pipeListener) Close() error   { l.once.Do(func() { close(l.closed) }); return nil }
func (l *pipeListener) Addr() net.Addr { return &net.TCPAddr{IP: net.IPv4(127, 0, 0, 1), Port: 80} }

// wsPair creates a real coder/websocket connection pair over net.Pipe.
func wsPair(e *Env, raiseLimit bool) (client, server *websocket.Conn, ok bool) {
	ln := &pipeListener{ch: make(chan net.Conn, 1), closed: make(chan struct{})}
	got := make(chan *websocket.Conn, 1)
	held := make(chan struct{})
	srv := &http.Server{Handler: http.HandlerFunc(func(w http.ResponseWriter, r *http.Request) {
		c, err := websocket.Accept(w, r, &websocket.AcceptOptions{InsecureSkipVerify: true})
		_ = raiseLimit
		if err != nil {
			got <- nil
			return
		}
		if raiseLimit {
			c.SetReadLimit(-1)
		}
		got <- c
		<-held // keep the handler (and with it the hijacked connection) alive
	})}
	go srv.Serve(ln)
	e.OnTeardown(func() { close(held); srv.Close(); ln.Close() })
	hc := &http.Client{Transport: &http.Transport{DialContext: func(ctx context.Context, network, addr string) (net.Conn, error) {
		c1, c2 := net.Pipe()
		ln.ch <- c2
		return c1, nil
	}}}
	ctx, cancel := context.WithTimeout(context.Background(), time.Minute)
	defer cancel()
	c, _, err := websocket.Dial(ctx, "ws://sim.invalid/ws", &websocket.DialOptions{HTTPClient: hc})
	if err != nil {
		return nil, nil, false
	}
	if raiseLimit {
		c.SetReadLimit(-1)
	}
	s := <-got
	if s == nil {
		return nil, nil, false
	}
	e.OnTeardown(func() { c.CloseNow(); s.CloseNow() })
	return c, s, true
}

func execWebsocketTransport(e *Env, p *TransportParams) {
	const prop = "C19"
	// one round trip in four uses the transport exactly as the README shows it
	// (websocket.Dial / Accept, then NewGoatOverWebsocket), without raising
	// coder/websocket's default read limit
	documented := p.Mode%3 == 0 && p.TickAt%4 == 3
	c, s, ok := wsPair(e, !documented)
	if !ok {
		e.Note("ws.setup.failed")
		return
	}
	a, b := goat.NewGoatOverWebsocket(c), goat.NewGoatOverWebsocket(s)
	if documented {
		wsDocumentedUsage(e, a, b, envsOf(p, false))
		return
	}
	switch p.Mode % 3 {
	case 0:
		roundTrip(e, "websocket", a, b, envsOf(p, false))
	case 1:
		if p.TickAt%2 == 0 {
			blockedOps(e, "websocket", b, nil)
		} else {
			// the peer has stopped reading: a Write blocks, and returns once its context is done
			blockedOps(e, "websocket", nil, a)
		}
	default:
		// raw input on the client socket, read through goat on the server side
		ctx, cancel := context.WithCancel(context.Background())
		e.OnTeardown(cancel)
		for i, ri := range p.Raw {
			g := rand.New(rand.NewPCG(ri.Seed, 77))
			valid, _ := proto.Marshal(genEnvelope(ri.Seed, false, false))
			typ := websocket.MessageBinary
			var data []byte
			switch ri.Kind % 8 {
			case 0:
				typ, data = websocket.MessageText, []byte("hello, not an envelope")
			case 4:
				// the frame type and the payload are independent: a text message is not an envelope even when its bytes decode
				typ, data = websocket.MessageText, valid
			case 5:
				typ, data = websocket.MessageText, []byte{}
			case 6:
				data = []byte{} // an empty binary message is the all-absent envelope
			case 7:
				ascii, _ := proto.Marshal(&Rpc{Id: uint64(1 + g.IntN(100)), Body: &goatorepo.Body{Data: []byte("plain ascii body")}})
				typ, data = websocket.MessageText, ascii
			case 1:
				data = make([]byte, 1+g.IntN(64))
				for j := range data {
					data[j] = byte(g.IntN(256))
				}
			case 2:
				data = valid
				if len(data) > 1 {
					data = data[:1+g.IntN(len(data)-1)]
				}
			default:
				data = append([]byte{}, valid...)
				if len(data) > 0 {
					data[g.IntN(len(data))] ^= 1 << uint(g.IntN(8))
				}
			}
			var got *Rpc
			var rerr error
			done := false
			e.Go(fmt.Sprintf("ws.raw.writer%d", i), func() { c.Write(ctx, typ, data) })
			e.Go(fmt.Sprintf("ws.raw.reader%d", i), func() {
				got, rerr = b.Read(ctx)
				done = true
			})
			if rr := e.Settle(); rr == Crashed || rr == StepLimit {
				return
			}
			e.Note("nontrivial")
			e.Note(fmt.Sprintf("ws.raw.kind%d", ri.Kind%8))
			e.Log(fmt.Sprintf("ws.raw.kind%d", ri.Kind%8), "", 0, "")
			if !done {
				e.Violate(prop, "hang", "websocket.raw", "Read did not return for raw input kind %d", ri.Kind%8)
				return
			}
			// independent reading: what is a well-formed envelope?
			var ref Rpc
			wellFormed := typ == websocket.MessageBinary && proto.Unmarshal(data, &ref) == nil
			if !wellFormed {
				if rerr == nil {
					e.Violate(prop, "malformed-delivered", "websocket.raw", "input that is not a well-formed envelope (kind %d, %d bytes) was delivered as an envelope", ri.Kind%8, len(data))
				}
			} else if rerr != nil {
				e.Violate(prop, "wellformed-rejected", "websocket.raw", "a decodable binary message was rejected: %v", rerr)
			} else if !proto.Equal(&ref, got) {
				e.Violate(prop, "altered", "websocket.raw", "a decodable binary message was delivered altered")
			}
			if rerr != nil && typ == websocket.MessageText {
				// coder/websocket stays usable after a text frame; after a protocol-level read error it may not
			}
			if rerr != nil && errors.Is(rerr, io.EOF) {
				return
			}
		}
	}
}

// brokenBody yields data and then fails (not io.EOF): a request body whose
// upload broke off part-way.
type brokenBody struct {
	data []byte
	off  int
}

func (b *brokenBody) Read(p []byte) (int, error) {
	if b.off >= len(b.data) {
		return 0, errors.New("simulated: connection reset during upload")
	}
	n := copy(p, b.data[b.off:])
	b.off += n
	return n, nil
}
func (b *brokenBody) Close() error { return nil }

// wsDocumentedUsage: round trip over a WebSocket pair set up as the README
// documents. Envelopes up to 32 KiB must arrive unchanged and in order; the
// first larger one shows whether the transport carries it (C19 asks for bodies
// up to 1 MiB) - a failure there has its own class and site, so that it can be
// listed as a known finding without hiding anything else.
func wsDocumentedUsage(e *Env, w, r goat.RpcReadWriter, envs []*Rpc) {
	const prop = "C19"
	ctx, cancel := context.WithCancel(context.Background())
	e.OnTeardown(cancel)
	e.Go("ws.doc.writer", func() {
		for _, m := range envs {
			e.Pt("t.write")
			if w.Write(ctx, m) != nil {
				return
			}
		}
	})
	var got []*Rpc
	var rerr error
	e.Go("ws.doc.reader", func() {
		for len(got) < len(envs) {
			e.Pt("t.read")
			m, err := r.Read(ctx)
			if err != nil {
				rerr = err
				return
			}
			got = append(got, m)
		}
	})
	if rr := e.Settle(); rr == Crashed || rr == StepLimit {
		return
	}
	e.Note("nontrivial")
	e.Note("ws.documented-usage")
	firstBig := -1
	for i, m := range envs {
		if proto.Size(m) > 32768 {
			firstBig = i
			break
		}
	}
	for i, m := range got {
		if !proto.Equal(m, envs[i]) {
			e.Violate(prop, "altered", "websocket.documented-usage", "envelope #%d arrived altered", i)
			return
		}
	}
	if len(got) == len(envs) {
		if firstBig >= 0 {
			e.Note("ws.documented-usage.big-carried")
		}
		return
	}
	if firstBig >= 0 && len(got) == firstBig {
		e.Note("ws.documented-usage.big-rejected")
		e.Violate(prop, "envelope-over-32KiB-rejected", "websocket.default-read-limit", "envelope #%d (%d bytes encoded) was written on a WebSocket transport set up as documented; the reader failed with %v after %d envelopes: the transport does not raise coder/websocket's 32 KiB default read limit", firstBig, proto.Size(envs[firstBig]), rerr, len(got))
		return
	}
	e.Violate(prop, "lost", "websocket.documented-usage", "%d envelopes written, %d read (reader error %v, first envelope over 32 KiB: #%d)\n%s", len(envs), len(got), rerr, firstBig, e.WaitGraph())
}

// memRoundTripper routes http://<addr>/ to the GoatOverHttp registered for addr.
type memRoundTripper struct {
	e     *Env
	hosts map[string]*goat.GoatOverHttp
	n     int
	Codes []int
	// CtxErr: a POST whose request context has ended by the time the peer's answer is in
	// fails with that context's error, as net/http's own transport reports it
	CtxErr bool
}

func (m *memRoundTripper) RoundTrip(r *http.Request) (*http.Response, error) {
	h := m.hosts[r.URL.Host]
	if h == nil {
		return nil, fmt.Errorf("no such host %s", r.URL.Host)
	}
	rec := httptest.NewRecorder()
	m.e.Pt("http.deliver") // the scheduler decides when the POST reaches the peer
	func() {
		defer func() {
			if p := recover(); p != nil {
				// net/http recovers handler panics and closes the connection;
				// the process survives, but the sender of the POST has crashed its handler
				m.e.Violate("C19", "crash", "http.ServeHTTP", "ServeHTTP panicked: %v", p)
				rec.Code = 500
			}
		}()
		h.ServeHTTP(rec, r)
	}()
	histMu.Lock()
	m.Codes = append(m.Codes, rec.Code)
	histMu.Unlock()
	if m.CtxErr {
		if err := r.Context().Err(); err != nil {
			return nil, err
		}
	}
	return rec.Result(), nil
}

type errBody struct{}

func (errBody) Read([]byte) (int, error) { return 0, errors.New("unreadable") }
func (errBody) Close() error             { return nil }

func execHTTPTransport(e *Env, p *TransportParams) {
	const prop = "C19"
	rt := &memRoundTripper{e: e, hosts: map[string]*goat.GoatOverHttp{}}
	old := http.DefaultTransport
	http.DefaultTransport = rt
	e.OnTeardown(func() { http.DefaultTransport = old })
	var bConn goat.RpcReadWriter
	bReady := make(chan struct{})
	onB := func(id string, rw goat.RpcReadWriter) {
		histMu.Lock()
		first := bConn == nil
		bConn = rw
		histMu.Unlock()
		if first {
			close(bReady)
		}
	}
	srcMap := func(src string) (string, error) {
		if src == "rejected" {
			return "", errors.New("rejected source")
		}
		return "addr-" + src, nil
	}
	idleTimeout, cleanEvery := 4*time.Minute, time.Minute
	if p.Mode%9 == 7 {
		// short timeouts, not whole seconds: idle means idle for the timeout, no sooner
		idleTimeout = []time.Duration{900 * time.Millisecond, 1900 * time.Millisecond, 2500 * time.Millisecond, 10 * time.Second}[p.TickAt%4]
		cleanEvery = idleTimeout / 3
	}
	opts := []goat.GoatOverHttpOption{goat.WithConnectionCleanupInterval(cleanEvery), goat.WithConnectionTimeout(idleTimeout)}
	A := goat.NewGoatOverHttp(func(string, goat.RpcReadWriter) {}, srcMap, opts...)
	B := goat.NewGoatOverHttp(onB, srcMap, opts...)
	rt.hosts["addr-peer-b"] = B
	rt.hosts["addr-peer-a"] = A
	e.OnTeardown(func() { A.Cancel(); B.Cancel() })
	aToBCount := &countingRW{inner: A.NewConnection("addr-peer-b")}
	var aToB goat.RpcReadWriter = aToBCount
	defer func() {
		// a POST the peer did not answer with 200 did not deliver its envelope:
		// the Write that made it must not have reported success
		histMu.Lock()
		rejected := 0
		for _, c := range rt.Codes {
			if c != 200 {
				rejected++
			}
		}
		okW, failedW := aToBCount.ok, aToBCount.failed
		histMu.Unlock()
		if rejected > failedW {
			e.Violate(prop, "write-success-on-rejected-post", "http.Write", "%d POSTs were answered with a status other than 200 (envelope not delivered) but only %d Writes failed (%d reported success)", rejected, failedW, okW)
		}
	}()
	getB := func() goat.RpcReadWriter {
		histMu.Lock()
		defer histMu.Unlock()
		return bConn
	}
	lazyB := lazyRW{get: getB, e: e, ready: bReady}
	waitB := func(ctx context.Context) bool {
		select {
		case <-bReady:
			return true
		case <-ctx.Done():
			return false
		}
	}
	switch p.Mode % 9 {
	case 8:
		// a stale handle: connection X to an unreachable peer fails a Write and drops out
		// of the registry; the application asks for a connection to that address again (Y)
		// and keeps using X somewhere else; X's next failed Write must not take Y down
		env := genEnvelope(p.EnvSeeds[0], true, false)
		ctx, cancel := context.WithCancel(context.Background())
		e.OnTeardown(cancel)
		x := A.NewConnection("addr-unreachable")
		e1 := x.Write(ctx, env)
		y := A.NewConnection("addr-unreachable")
		var rerr error
		rdone := false
		e.Go("http.stale.reader", func() { _, rerr = y.Read(ctx); rdone = true })
		e.NoAutoAdvance = true
		defer func() { e.NoAutoAdvance = false }()
		if rr := e.Drive(nil); rr == Crashed || rr == StepLimit {
			return
		}
		e2 := x.Write(ctx, env)
		if rr := e.Drive(nil); rr == Crashed || rr == StepLimit {
			return
		}
		e.Note("nontrivial")
		e.Note("http.stale-handle")
		if e1 == nil || e2 == nil {
			e.Violate(prop, "write-success-on-rejected-post", "http.Write", "a Write to an unreachable peer reported success (%v, %v)", e1, e2)
		}
		if rdone {
			e.Violate(prop, "successor-closed-by-stale-handle", "http.Write", "connection Y to an address was neither idle nor cancelled, yet its reader failed with %v: a failed Write on X, an earlier connection to the same address that had already dropped out of the registry, unregistered whatever is registered under the address now", rerr)
		}
	case 7:
		// a connection that carried an envelope half a timeout ago is not idle: cleaner
		// ticks in between leave it alone and the next envelope is delivered
		first, second := genEnvelope(p.EnvSeeds[0], true, false), genEnvelope(p.EnvSeeds[len(p.EnvSeeds)-1], true, false)
		ctx, cancel := context.WithCancel(context.Background())
		e.OnTeardown(cancel)
		var got []*Rpc
		var rerr error
		e.Go("http.active.reader", func() {
			if !waitB(ctx) {
				rerr = ctx.Err()
				return
			}
			for len(got) < 2 {
				r, err := getB().Read(ctx)
				if err != nil {
					rerr = err
					return
				}
				got = append(got, r)
			}
		})
		var w0, w1 error
		e.Go("http.active.w0", func() { w0 = aToB.Write(ctx, first) })
		e.NoAutoAdvance = true
		defer func() { e.NoAutoAdvance = false }()
		if rr := e.Drive(nil); rr == Crashed || rr == StepLimit {
			return
		}
		e.Advance(idleTimeout / 2)
		e.Note("fault.clock.jump")
		if rr := e.Drive(nil); rr == Crashed || rr == StepLimit {
			return
		}
		e.Go("http.active.w1", func() { w1 = aToB.Write(ctx, second) })
		if rr := e.Drive(nil); rr == Crashed || rr == StepLimit {
			return
		}
		e.Note("nontrivial")
		e.Note("http.active-connection-ticks")
		if rerr != nil || w0 != nil || w1 != nil || len(got) != 2 {
			e.Violate(prop, "active-connection-reaped", "http.connectionCleaner", "a connection with timeout %v that delivered an envelope %v ago was treated as idle: writes returned %v / %v, the reader got %d envelope(s) and %v", idleTimeout, idleTimeout/2, w0, w1, len(got), rerr)
		} else if !proto.Equal(got[0], first) || !proto.Equal(got[1], second) {
			e.Violate(prop, "altered", "http", "envelopes arrived altered or out of order")
		}
	case 6:
		// a connection that has just come into being is not idle: the cleaner's first
		// tick (1 min) arrives while its first POST is still waiting for a reader, far
		// inside the 4 min timeout; the envelope is delivered all the same
		first := genEnvelope(p.EnvSeeds[0], true, false)
		ctx, cancel := context.WithCancel(context.Background())
		e.OnTeardown(cancel)
		var werr error
		wdone := false
		e.Go("http.fresh.writer", func() { werr = aToB.Write(ctx, first); wdone = true })
		e.NoAutoAdvance = true
		if rr := e.Drive(nil); rr == Crashed || rr == StepLimit {
			return
		}
		e.Advance(61 * time.Second)
		e.Note("fault.clock.jump")
		if rr := e.Drive(nil); rr == Crashed || rr == StepLimit {
			return
		}
		e.NoAutoAdvance = false
		var got *Rpc
		var rerr error
		rdone := false
		e.Go("http.fresh.reader", func() {
			if waitB(ctx) {
				got, rerr = getB().Read(ctx)
			} else {
				rerr = ctx.Err()
			}
			rdone = true
		})
		e.NoAutoAdvance = true
		rr := e.Drive(nil)
		e.NoAutoAdvance = false
		if rr == Crashed || rr == StepLimit {
			return
		}
		e.Note("nontrivial")
		e.Note("http.fresh-connection-tick")
		switch {
		case !rdone || !wdone:
			e.Violate(prop, "fresh-connection-reaped", "http.connectionCleaner", "first envelope of a new HTTP connection, one cleaner tick (61 s) after its POST began: write returned=%v read returned=%v\n%s", wdone, rdone, e.WaitGraph())
		case rerr != nil || werr != nil:
			e.Violate(prop, "fresh-connection-reaped", "http.connectionCleaner", "a connection 61 s old (timeout 4 min) was treated as idle at the cleaner's first tick: the first envelope's Write returned %v, the reader got %v", werr, rerr)
		case !proto.Equal(got, first):
			e.Violate(prop, "altered", "http", "the first envelope of a new connection arrived altered")
		}
	case 5:
		cancelledReads(e, "http", aToB, lazyB, envsOf(p, true))
	case 0:
		if p.TickAt%3 == 0 {
			// envelopes the far end refuses with a 400 (no header, no source, a source its
			// mapping rejects), written before the good ones: each such Write fails (the
			// envelope was not delivered), and what follows is unaffected
			bads := []*Rpc{
				{Id: 7, Body: &goatorepo.Body{Data: []byte("no header")}},
				{Id: 8, Header: &goatorepo.RequestHeader{Method: "/m", Destination: "peer-b"}, Body: &goatorepo.Body{Data: []byte("no source")}},
				{Id: 9, Header: &goatorepo.RequestHeader{Method: "/m", Source: "rejected", Destination: "peer-b"}},
				{},
			}
			var errs []error
			e.Call("http.rejected.writer", func() {
				for i := 0; i <= p.TickAt%4; i++ {
					e.Pt("t.write")
					errs = append(errs, aToB.Write(context.Background(), bads[i]))
				}
			})
			e.Note("http.rejected-writes")
			for i, err := range errs {
				if err == nil {
					e.Violate(prop, "write-success-on-rejected-post", "http.Write", "envelope %d (%v), which the far end answers with HTTP 400 and does not deliver, was written with a nil error", i, bads[i])
				}
			}
		}
		roundTrip(e, "http", aToB, lazyB, envsOf(p, true))
	case 1:
		// a Read blocked on a connection that never gets anything
		first := genEnvelope(1, true, false)
		ctx, cancel := context.WithCancel(context.Background())
		e.OnTeardown(cancel)
		e.Go("http.first.writer", func() { aToB.Write(ctx, first) })
		e.Go("http.first.reader", func() {
			if waitB(ctx) {
				getB().Read(ctx)
			}
		})
		if rr := e.Settle(); rr == Crashed || rr == StepLimit {
			return
		}
		if getB() == nil {
			return
		}
		if p.TickAt%2 == 0 {
			blockedOps(e, "http", getB(), nil)
		} else {
			// nobody reads on B: A's Write (a POST that is answered only once the
			// envelope was taken) is blocked, and must return once its context is done
			blockedOps(e, "http", nil, aToB)
		}
	case 2:
		// malformed requests straight into ServeHTTP
		delivered := 0
		ctx, cancel := context.WithCancel(context.Background())
		e.OnTeardown(cancel)
		e.Go("http.drain", func() {
			if !waitB(ctx) {
				return
			}
			for {
				if _, err := getB().Read(ctx); err != nil {
					return
				}
				delivered++
			}
		})
		wantDelivered := 0
		for i, ri := range p.Raw {
			var body io.ReadCloser
			valid := genEnvelope(ri.Seed, true, false)
			want400 := true
			switch ri.Kind % 8 {
			case 7:
				// an upload that breaks off: the bytes that did arrive are a decodable
				// prefix (id and header - fields are encoded in order), then the read fails
				pre, _ := proto.Marshal(&Rpc{Id: valid.GetId(), Header: valid.GetHeader()})
				body = &brokenBody{data: pre}
			case 0:
				body = nil
			case 1:
				body = errBody{}
			case 2:
				body = io.NopCloser(bytes.NewReader([]byte{0xff, 0xff, 0xff, 0xff, 0x01}))
			case 3:
				valid.Header = nil
				b, _ := proto.Marshal(valid)
				body = io.NopCloser(bytes.NewReader(b))
			case 4:
				valid.Header.Source = ""
				b, _ := proto.Marshal(valid)
				body = io.NopCloser(bytes.NewReader(b))
			case 5:
				valid.Header.Source = "rejected"
				b, _ := proto.Marshal(valid)
				body = io.NopCloser(bytes.NewReader(b))
			default:
				b, _ := proto.Marshal(valid)
				body = io.NopCloser(bytes.NewReader(b))
				want400 = false
				wantDelivered++
			}
			req, _ := http.NewRequest("POST", "http://addr-peer-b", nil)
			req.Body = body
			code := 0
			e.Go(fmt.Sprintf("http.raw%d", i), func() {
				rec := httptest.NewRecorder()
				B.ServeHTTP(rec, req)
				code = rec.Code
			})
			e.NoAutoAdvance = true
			rr := e.Drive(nil) // no timer flush: the connection must not go idle between requests
			e.NoAutoAdvance = false
			if rr == Crashed || rr == StepLimit {
				return
			}
			e.Note(fmt.Sprintf("http.raw.kind%d", ri.Kind%8))
			e.Log(fmt.Sprintf("http.raw.kind%d", ri.Kind%8), "", code, "")
			e.Note("nontrivial")
			if want400 && code != 400 {
				e.Violate(prop, "malformed-not-400", "http.ServeHTTP", "malformed request kind %d answered with HTTP %d, want 400", ri.Kind%8, code)
			}
			if !want400 && code != 200 {
				e.Violate(prop, "wellformed-rejected", "http.ServeHTTP", "well-formed request answered with HTTP %d", code)
			}
			if delivered != wantDelivered {
				e.Violate(prop, "malformed-delivered", "http.ServeHTTP", "%d envelopes were delivered to the reader, %d well-formed requests were made", delivered, wantDelivered)
				return
			}
		}
	case 4:
		// failing writes (peer unreachable), alone, repeated, and combined with
		// an idle timeout of the same connection: errors, never a crash
		dead := A.NewConnection("addr-nowhere")
		ctx, cancel := context.WithCancel(context.Background())
		e.OnTeardown(cancel)
		var werrs []error
		var rerr error
		rdone := false
		withReader := p.TickAt%2 == 0
		if withReader {
			e.Go("http.dead.reader", func() {
				e.Pt("t.read")
				_, rerr = dead.Read(ctx)
				rdone = true
			})
		}
		write := func(tag string) {
			e.Go("http.dead.writer."+tag, func() {
				e.Pt("t.write")
				err := dead.Write(ctx, genEnvelope(7, true, false))
				histMu.Lock()
				werrs = append(werrs, err)
				histMu.Unlock()
				e.Log("t.write.failed", "http", 0, errStr(err))
			})
		}
		order := p.TickAt % 3
		if order == 0 {
			write("a")
		}
		e.NoAutoAdvance = true
		if rr := e.Drive(nil); rr == Crashed || rr == StepLimit {
			return
		}
		e.NoAutoAdvance = false
		if order != 0 {
			// let the connection time out first
			for i := 0; i < 6; i++ {
				e.Advance(90 * time.Second)
				if rr := e.Drive(nil); rr == Crashed || rr == StepLimit {
					return
				}
			}
			e.Note("fault.clock.jump")
		}
		write("b")
		write("c")
		if rr := e.Settle(); rr == Crashed || rr == StepLimit {
			return
		}
		e.Note("nontrivial")
		e.Note("http.failed-writes")
		for _, err := range werrs {
			if err == nil {
				e.Violate(prop, "write-to-nowhere-ok", "http.Write", "a Write to an unreachable peer reported success")
			}
		}
		_ = rerr
		if withReader && !rdone {
			// a failed write (or the idle timeout) unregisters the connection: its reader must fail
			e.Violate(prop, "reader-not-failed", "http.Write", "the reader of a connection whose writes failed is still blocked\n%s", e.WaitGraph())
		}
	default:
		// idle timeout: the cleaner's tick lands somewhere inside a delivery
		envs := envsOf(p, true)
		ctx, cancel := context.WithCancel(context.Background())
		e.OnTeardown(cancel)
		e.Go("http.w0", func() { aToB.Write(ctx, envs[0]) })
		var rerr error
		reads := 0
		e.Go("http.reader", func() {
			if !waitB(ctx) {
				return
			}
			for {
				e.Pt("t.read")
				if _, err := getB().Read(ctx); err != nil {
					rerr = err
					return
				}
				reads++
			}
		})
		if rr := e.Settle(); rr == Crashed || rr == StepLimit {
			return
		}
		// second delivery in progress while the connection goes idle
		e.Go("http.w1", func() {
			e.Pt("t.write")
			aToB.Write(ctx, envs[len(envs)-1])
		})
		s0 := e.Step
		e.NoAutoAdvance = true
		e.Drive(func() bool { return e.Step-s0 >= p.TickAt })
		e.NoAutoAdvance = false
		e.Advance(6 * time.Minute) // past the 4 minute timeout: the cleaner ticks
		e.Note("fault.clock.jump")
		if rr := e.Settle(); rr == Crashed || rr == StepLimit {
			return
		}
		// the in-progress delivery may have renewed the connection after the
		// jump; now let it really go idle: no traffic for well over the timeout
		for i := 0; i < 6; i++ {
			e.Advance(90 * time.Second)
			if rr := e.Drive(nil); rr == Crashed || rr == StepLimit {
				return
			}
		}
		e.Note("nontrivial")
		if rerr == nil {
			// the reader was served before the tick and the connection was then renewed, or is still waiting
			e.Note("idle.reader-still-waiting")
			blocked := false
			for _, v := range e.W.Snapshot() {
				if v.Name == "http.reader" && !v.Done {
					blocked = true
				}
			}
			if blocked {
				e.Violate(prop, "idle-reader-not-failed", "http.connectionCleaner", "an HTTP connection idle past its timeout did not fail its reader (reads so far: %d)", reads)
			}
		} else {
			e.Note("idle.reader-failed")
		}
	}
}

// lazyRW resolves the server-side connection once GoatOverHttp has announced it.
// countingRW counts the outcomes of Writes (the HTTP transport's Write is one POST).
type countingRW struct {
	inner      goat.RpcReadWriter
	ok, failed int
}

func (c *countingRW) Read(ctx context.Context) (*Rpc, error) { return c.inner.Read(ctx) }
func (c *countingRW) Write(ctx context.Context, r *Rpc) error {
	err := c.inner.Write(ctx, r)
	histMu.Lock()
	if err != nil {
		c.failed++
	} else {
		c.ok++
	}
	histMu.Unlock()
	return err
}

type lazyRW struct {
	get   func() goat.RpcReadWriter
	e     *Env
	ready chan struct{}
}

func (l lazyRW) Read(ctx context.Context) (*Rpc, error) {
	// harness code is not instrumented: never leave a choice to Go's own select
	// (ready and a done context at once), decide it here in a fixed order
	select {
	case <-l.ready:
	default:
		if err := ctx.Err(); err != nil {
			return nil, err
		}
		select {
		case <-l.ready:
		case <-ctx.Done():
			return nil, ctx.Err()
		}
	}
	return l.get().Read(ctx)
}
func (l lazyRW) Write(ctx context.Context, r *Rpc) error { return l.get().Write(ctx, r) }

func init() {
	Register(&Family{Name: "c19.transports", ShrinkKeys: []string{"envs", "raw", "tick_at"}, Props: []string{"C19"}, New: func() any { return &TransportParams{} }, Gen: genTransport, Exec: execTransport,
		Faulty: true, FaultKinds: []string{"ctx.cancel", "peer.malformed", "clock.jump"}})
}
