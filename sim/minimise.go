package verifsim

import (
	"encoding/json"
	"fmt"
	"sort"
	"testing"
	"time"
)

// minimise shrinks the scenario (generic structural shrinking of its JSON
// form: delete array elements, shrink numbers) and then the decision tape
// (shortest explicit prefix after which the default run-to-block policy still
// reproduces), keeping a candidate only if the same (property, class, site)
// violation reproduces.
func minimise(t *testing.T, fam *Family, prop string, params any, seed uint64, tape []string, want Violation, deadline time.Time) (any, []string, string) {
	curP := params
	curT := tape
	tries, kept := 0, 0

	try := func(cand any) ([]string, bool) {
		tries++
		// first under the current tape (name-based, tolerant of missing actions)
		if r, ok := reproduces(t, fam, prop, cloneParams(fam, cand), seed, curT, want); ok {
			return r.Tape, true
		}
		// then under a few fresh schedules
		for k := uint64(0); k < 2; k++ {
			if time.Now().After(deadline) {
				return nil, false
			}
			if r, ok := reproduces(t, fam, prop, cloneParams(fam, cand), seed+k*7919, nil, want); ok {
				// re-validate as a tape (seed-independent)
				if r2, ok2 := reproduces(t, fam, prop, cloneParams(fam, cand), seed, r.Tape, want); ok2 {
					return r2.Tape, true
				}
			}
		}
		return nil, false
	}

	for round := 0; round < 6 && time.Now().Before(deadline); round++ {
		progress := false
		var tree any
		b, _ := json.Marshal(curP)
		json.Unmarshal(b, &tree)
		all := collectPaths(tree, nil)
		var paths []jpath
		for _, pt := range all {
			if len(pt.path) != 1 {
				continue
			}
			k, _ := pt.path[0].(string)
			for _, ok := range fam.ShrinkKeys {
				if ok == k {
					paths = append(paths, pt)
				}
			}
		}
		// larger structures first: arrays before numbers, shallow before deep
		sort.SliceStable(paths, func(i, j int) bool {
			if paths[i].isArr != paths[j].isArr {
				return paths[i].isArr
			}
			return len(paths[i].path) < len(paths[j].path)
		})
		for _, pt := range paths {
			if time.Now().After(deadline) {
				break
			}
			for _, cand := range pt.candidates(tree) {
				if time.Now().After(deadline) {
					break
				}
				cb, _ := json.Marshal(cand)
				cp := fam.New()
				if json.Unmarshal(cb, cp) != nil {
					continue
				}
				if nt, ok := try(cp); ok {
					curP, curT = cp, nt
					kept++
					progress = true
					// restart from the new tree
					b, _ = json.Marshal(curP)
					json.Unmarshal(b, &tree)
					break
				}
			}
		}
		if !progress {
			break
		}
	}

	// tape: shortest explicit prefix, then thin the prefix out (ddmin over
	// chunks; removed decisions are filled in by the default policy)
	lo, hi := 0, len(curT) // invariant: prefix of length hi reproduces
	for lo < hi && time.Now().Before(deadline) {
		mid := (lo + hi) / 2
		if _, ok := reproduces(t, fam, prop, cloneParams(fam, curP), seed, curT[:mid:mid], want); ok {
			hi = mid
		} else {
			lo = mid + 1
		}
	}
	curT = append([]string{}, curT[:hi]...)
	for chunk := len(curT) / 2; chunk >= 1 && time.Now().Before(deadline); chunk /= 2 {
		for at := 0; at+chunk <= len(curT) && time.Now().Before(deadline); {
			cand := append(append([]string{}, curT[:at]...), curT[at+chunk:]...)
			if len(cand) == 0 {
				cand = []string{}
			}
			if _, ok := reproduces(t, fam, prop, cloneParams(fam, curP), seed, cand, want); ok {
				curT = cand
			} else {
				at += chunk
			}
		}
	}
	return curP, curT, fmt.Sprintf("scenario candidates tried=%d kept=%d; tape %d -> %d explicit decisions", tries, kept, len(tape), len(curT))
}

type jpath struct {
	path  []any // string keys / int indexes
	isArr bool
	n     float64
	alen  int
}

func collectPaths(v any, prefix []any) []jpath {
	var out []jpath
	switch x := v.(type) {
	case map[string]any:
		keys := make([]string, 0, len(x))
		for k := range x {
			keys = append(keys, k)
		}
		sort.Strings(keys)
		for _, k := range keys {
			out = append(out, collectPaths(x[k], append(append([]any{}, prefix...), k))...)
		}
	case []any:
		if len(x) > 0 {
			out = append(out, jpath{path: prefix, isArr: true, alen: len(x)})
		}
		for i := range x {
			out = append(out, collectPaths(x[i], append(append([]any{}, prefix...), i))...)
		}
	case float64:
		if x > 0 {
			out = append(out, jpath{path: prefix, n: x})
		}
	}
	return out
}

func deepCopy(v any) any {
	b, _ := json.Marshal(v)
	var o any
	json.Unmarshal(b, &o)
	return o
}

func setPath(root any, path []any, f func(old any) (any, bool)) (any, bool) {
	if len(path) == 0 {
		return f(root)
	}
	switch x := root.(type) {
	case map[string]any:
		k, ok := path[0].(string)
		if !ok {
			return nil, false
		}
		child, ok := x[k]
		if !ok {
			return nil, false
		}
		nc, ok := setPath(child, path[1:], f)
		if !ok {
			return nil, false
		}
		x[k] = nc
		return x, true
	case []any:
		i, ok := path[0].(int)
		if !ok || i >= len(x) {
			return nil, false
		}
		nc, ok := setPath(x[i], path[1:], f)
		if !ok {
			return nil, false
		}
		x[i] = nc
		return x, true
	}
	return nil, false
}

func (p jpath) candidates(tree any) []any {
	var out []any
	if p.isArr {
		// drop halves, then single elements (last first)
		n := p.alen
		var cuts [][2]int
		if n >= 4 {
			cuts = append(cuts, [2]int{n / 2, n}, [2]int{0, n / 2})
		}
		for i := n - 1; i >= 0 && len(cuts) < 12; i-- {
			cuts = append(cuts, [2]int{i, i + 1})
		}
		for _, c := range cuts {
			cp := deepCopy(tree)
			if nt, ok := setPath(cp, p.path, func(old any) (any, bool) {
				a, ok := old.([]any)
				if !ok || c[1] > len(a) {
					return nil, false
				}
				na := append(append([]any{}, a[:c[0]]...), a[c[1]:]...)
				return na, true
			}); ok {
				out = append(out, nt)
			}
		}
		return out
	}
	vals := []float64{0, 1, float64(int(p.n / 2)), p.n - 1}
	seen := map[float64]bool{p.n: true}
	for _, v := range vals {
		if v < 0 || seen[v] {
			continue
		}
		seen[v] = true
		cp := deepCopy(tree)
		vv := v
		if nt, ok := setPath(cp, p.path, func(old any) (any, bool) { return vv, true }); ok {
			out = append(out, nt)
		}
	}
	return out
}
