package verifsim

import (
	"bytes"
	"context"
	"fmt"
	"io"
	"math/rand/v2"
	"net/http"
	"net/http/httptest"
	"time"

	goat "github.com/avos-io/goat"
	"github.com/avos-io/goat/gen/goatorepo"
	"google.golang.org/protobuf/proto"
)

// c15.http: many peers on one GoatOverHttp while its idle-connection cleaner is at
// work. Every peer POSTs envelopes at its own pace (some faster than the idle timeout,
// some slower, so that their connections are reaped and created again), readers consume
// what arrives, and other tasks ask for outgoing connections to the same addresses:
// look-ups and registrations for one peer run while the cleaner removes another. Judged
// by the race detector only (C15); what is delivered is C19's business.

type C15HTTPParams struct {
	TimeoutMs int   `json:"timeout_ms"`
	GapMs     []int `json:"gap_ms"`   // per peer: pause between its POSTs
	Posts     []int `json:"posts"`    // per peer: number of POSTs
	DialMs    []int `json:"dial_ms"`  // per dialler: when it asks for a connection
	DialTo    []int `json:"dial_to"`  // per dialler: which peer's address
}

func genC15HTTP(g *rand.Rand, tier string) any {
	p := &C15HTTPParams{TimeoutMs: []int{300, 900, 1500}[g.IntN(3)]}
	n := 2 + g.IntN(7)
	for i := 0; i < n; i++ {
		// gaps on the cleaner's grid (a third of the timeout) and off it
		gap := p.TimeoutMs * (1 + g.IntN(6)) / 3
		if g.IntN(2) == 0 {
			gap += g.IntN(50)
		}
		p.GapMs = append(p.GapMs, gap)
		p.Posts = append(p.Posts, 1+g.IntN(5))
	}
	for i := g.IntN(5); i > 0; i-- {
		p.DialMs = append(p.DialMs, p.TimeoutMs*g.IntN(12)/3)
		p.DialTo = append(p.DialTo, g.IntN(n))
	}
	return p
}

func execC15HTTP(e *Env, pp any) {
	p := pp.(*C15HTTPParams)
	timeout := time.Duration(p.TimeoutMs) * time.Millisecond
	ctx, cancel := context.WithCancel(context.Background())
	e.OnTeardown(cancel)
	srcMap := func(src string) (string, error) { return "addr-" + src, nil }
	B := goat.NewGoatOverHttp(func(id string, rw goat.RpcReadWriter) {
		// (runs on a goat goroutine) the application's reader of the new connection
		for {
			if _, err := rw.Read(ctx); err != nil {
				return
			}
		}
	}, srcMap, goat.WithConnectionCleanupInterval(timeout/3), goat.WithConnectionTimeout(timeout))
	e.OnTeardown(B.Cancel)
	for i := range p.GapMs {
		i := i
		e.Go(fmt.Sprintf("http.peer%d", i), func() {
			for k := 0; k < p.Posts[i]; k++ {
				env := &Rpc{Id: uint64(100*i + k + 1), Header: &goatorepo.RequestHeader{Method: "/verif.Sim/M", Source: fmt.Sprintf("peer-%d", i), Destination: "b"},
					Body: &goatorepo.Body{Data: []byte(fmt.Sprintf("p%d-%d", i, k))}}
				b, _ := proto.Marshal(env)
				req, _ := http.NewRequestWithContext(ctx, "POST", "http://addr-b", nil)
				req.Body = io.NopCloser(bytes.NewReader(b))
				e.Pt("http.post")
				B.ServeHTTP(httptest.NewRecorder(), req)
				time.Sleep(time.Duration(p.GapMs[i]) * time.Millisecond)
			}
		})
	}
	for j := range p.DialMs {
		j := j
		e.Go(fmt.Sprintf("http.dial%d", j), func() {
			time.Sleep(time.Duration(p.DialMs[j]) * time.Millisecond)
			e.Pt("http.dial")
			_ = B.NewConnection(fmt.Sprintf("addr-peer-%d", p.DialTo[j]%len(p.GapMs)))
		})
	}
	// the fake clock in steps of a ninth of the timeout: POSTs, dials and cleaner ticks
	// that fall on the same instant run side by side
	for i := 0; i < 9*8; i++ {
		e.Advance(timeout / 9)
		if len(e.Crashes()) > 0 {
			return
		}
	}
	e.Note("nontrivial")
	e.Note("c15.http-idle-cleaner")
	e.Settle()
}

func init() {
	Register(&Family{Name: "c15.http", Props: []string{"C15"}, New: func() any { return &C15HTTPParams{} }, Gen: genC15HTTP, Exec: execC15HTTP, ShrinkKeys: []string{}})
}
