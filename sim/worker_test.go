package verifsim

import (
	"encoding/json"
	"fmt"
	"math/rand/v2"
	"os"
	"runtime"
	"runtime/debug"
	"sort"
	"strconv"
	"strings"
	"testing"
	"time"
)

// ReplayFile is what a violation is reported as.
type ReplayFile struct {
	Property string          `json:"property"`
	Class    string          `json:"class"`
	Site     string          `json:"site"`
	Detail   string          `json:"detail"`
	Family   string          `json:"family"`
	Seed     uint64          `json:"seed"`     // run seed
	BaseSeed uint64          `json:"base_seed"` // VERIF_SEED of the batch
	Run      uint64          `json:"run"`
	Tier     string          `json:"tier"`
	Params   json.RawMessage `json:"params"` // the (minimised) scenario incl. fault plan
	Tape     []string        `json:"tape"`   // the (minimised) decision tape; after it: run-to-block
	ReproRate string         `json:"repro_rate"`
	OrigSteps int            `json:"orig_steps"`
	MinSteps  int            `json:"min_steps"`
	Shrunk    string         `json:"shrunk"`
	HistTail  []Ev           `json:"hist_tail,omitempty"`
	WaitGraph string         `json:"wait_graph,omitempty"`
	Crashes   []string       `json:"crashes,omitempty"`
}

// WorkerSummary is the worker's output.
type WorkerSummary struct {
	Family      string            `json:"family"`
	Property    string            `json:"property"`
	Worker      int               `json:"worker"`
	Runs        int               `json:"runs"`
	NonTrivial  int               `json:"nontrivial"`
	Steps       int64             `json:"steps"`
	Yields      int64             `json:"yields"`
	SimNs       int64             `json:"sim_ns"`
	WallS       float64           `json:"wall_s"`
	FPs         []string          `json:"fps"`
	Notes       map[string]int    `json:"notes"`
	Events      map[string]int    `json:"events"`
	Strategies  map[string]int    `json:"strategies"`
	StepLimited int               `json:"step_limited"`
	Infra       []string          `json:"infra"`
	Unreg       int64             `json:"unregistered_yields"`
	LockMiss    int64             `json:"lock_model_miss"`
	Violations  []ViolationReport `json:"violations"`
	ViolCounts  map[string]int    `json:"viol_counts"`
	Samples     []json.RawMessage `json:"samples"`
	Abandoned   int               `json:"abandoned,omitempty"`
	Recycled    bool              `json:"recycled,omitempty"`
	NextIndex   int               `json:"next_index,omitempty"`
	LeakRuns    int               `json:"leak_runs"`
	LeakSample  []string          `json:"leak_sample,omitempty"`
	DetLog      []string          `json:"detlog,omitempty"`
}

type ViolationReport struct {
	Violation
	Replay string `json:"replay"`
	Seed   uint64 `json:"seed"`
}

func envInt(k string, def int) int {
	if v := os.Getenv(k); v != "" {
		if n, err := strconv.Atoi(v); err == nil {
			return n
		}
	}
	return def
}

func runSeed(base uint64, fam string, idx uint64) uint64 {
	h := hashStr(fam)
	x := base*0x9E3779B97F4A7C15 ^ h ^ (idx+1)*0xBF58476D1CE4E5B9
	x ^= x >> 31
	x *= 0x94D049BB133111EB
	x ^= x >> 29
	return x
}

// violationsFor returns the violations of a run that belong to prop
// (oracle violations tagged with prop, plus crashes).
func violationsFor(prop string, res *RunResult) []Violation {
	var out []Violation
	for _, v := range res.Violations {
		if v.Property == prop {
			out = append(out, v)
		}
	}
	out = append(out, CrashViolations(prop, res)...)
	return out
}

func vkey(v Violation) string { return v.Class + "|" + v.Site }

func TestWorker(t *testing.T) {
	famName := os.Getenv("VERIF_FAMILY")
	if famName == "" {
		t.Skip("worker entry point; set VERIF_FAMILY")
	}
	fam := families[famName]
	if fam == nil {
		t.Fatalf("unknown family %q", famName)
	}
	prop := os.Getenv("VERIF_PROP")
	base, _ := strconv.ParseUint(os.Getenv("VERIF_SEED"), 10, 64)
	worker := envInt("VERIF_WORKER", 0)
	nworkers := envInt("VERIF_NWORKERS", 1)
	maxRuns := envInt("VERIF_RUNS", 1<<30)
	budget := time.Duration(envInt("VERIF_BUDGET_MS", 5000)) * time.Millisecond
	tier := os.Getenv("VERIF_TIER")
	if tier == "" {
		tier = "quick"
	}
	outPath := os.Getenv("VERIF_OUT")
	replayDir := os.Getenv("VERIF_REPLAY_DIR")
	detlog := os.Getenv("VERIF_DETLOG") != ""
	maxReports := envInt("VERIF_MAX_REPORTS", 3)
	knownKeys := map[string]bool{}
	for _, k := range strings.Split(os.Getenv("VERIF_KNOWN"), ";;") {
		if k != "" {
			knownKeys[k] = true
		}
	}

	debug.SetGCPercent(-1)
	raceMode := os.Getenv("VERIF_RACE") != ""
	wdTimeout := 90 * time.Second
	if raceMode {
		wdTimeout = 20 * time.Second
	}
	if raceMode {
		debug.SetGCPercent(100)
	}
	if os.Getenv("VERIF_RACE") == "" {
		// The lock-step engine pins itself to one P whatever the environment
		// says: intra-step goroutine order (and with it event numbering) is
		// then the runtime's deterministic run-queue order.
		runtime.GOMAXPROCS(1)
	}
	sum := &WorkerSummary{Family: famName, Property: prop, Worker: worker, Notes: map[string]int{}, Events: map[string]int{},
		Strategies: map[string]int{}, ViolCounts: map[string]int{}}
	fps := map[uint64]struct{}{}
	reported := map[string]int{}
	start := time.Now()
	for i := envInt("VERIF_RUN_FROM", 0); i < maxRuns; i++ {
		if time.Since(start) > budget {
			break
		}
		idx := uint64(i*nworkers + worker)
		seed := runSeed(base, famName, idx)
		g := rand.New(rand.NewPCG(seed, 0x5eed))
		var params any
		if fam.GenAt != nil && !raceMode {
			params = fam.GenAt(idx, g, tier)
		} else {
			params = fam.Gen(g, tier)
		}
		if raceMode {
			// marker for attributing race reports (which the runtime prints to stderr) to a run
			fmt.Fprintf(os.Stderr, "\nVERIF-RUN idx=%d i=%d seed=%d\n", idx, i, seed)
		}
		wd := time.AfterFunc(wdTimeout, func() {
			// real-time watchdog outside the bubble: a run that does not finish is
			// infrastructure trouble (never a violation by timing alone)
			fmt.Fprintf(os.Stderr, "\nVERIF-WATCHDOG family=%s seed=%d\n", famName, seed)
			buf := make([]byte, 1<<20)
			os.Stderr.Write(buf[:runtime.Stack(buf, true)])
			if raceMode && outPath != "" {
				// free-running mode cannot see through real mutexes (a goroutine
				// waiting for a goat lock whose owner waits for a timer stalls the
				// bubble's clock): abandon this run, keep what was collected, and
				// let a fresh process continue with the next run
				sum.Abandoned++
				sum.Recycled = true
				sum.NextIndex = i + 1
				sum.WallS = time.Since(start).Seconds()
				b, _ := json.Marshal(sum)
				os.WriteFile(outPath, b, 0o644)
				os.Exit(0)
			}
			os.Exit(3)
		})
		var res *RunResult
		if raceMode {
			// the testing package fails (and ends) a test in which the race
			// detector fired: isolate every run in a subtest
			res = &RunResult{Family: fam.Name, Seed: seed}
			t.Run("run", func(st *testing.T) { RunOneInto(st, fam, params, seed, RunOpts{Strategy: -1, Free: true}, res) })
		} else {
			res = RunOne(t, fam, params, seed, RunOpts{Strategy: -1})
		}
		wd.Stop()
		if res == nil {
			res = &RunResult{Family: fam.Name, Seed: seed, Infra: "run produced no result"}
		}
		sum.Runs++
		sum.Steps += int64(res.Steps)
		sum.Yields += res.Yields
		sum.SimNs += int64(res.SimTime)
		sum.Unreg += res.Unreg
		sum.LockMiss += res.LockMiss
		sum.Strategies[stratNames[res.Strategy]]++
		if res.StepLimit {
			sum.StepLimited++
		}
		if len(res.Leaked) > 0 {
			sum.LeakRuns++
			if len(sum.LeakSample) == 0 {
				sum.LeakSample = res.Leaked
			}
		}
		if res.Infra != "" {
			if len(sum.Infra) < 5 {
				sum.Infra = append(sum.Infra, fmt.Sprintf("seed %d: %s", seed, res.Infra))
			}
			continue
		}
		for k, v := range res.Notes {
			sum.Notes[k] += v
		}
		for k, v := range res.Events {
			sum.Events[k] += v
		}
		if res.NonTrivial {
			if _, ok := fps[res.Fingerprint]; !ok && len(fps) < 400000 {
				fps[res.Fingerprint] = struct{}{}
			}
			sum.NonTrivial++
		}
		if detlog {
			sum.DetLog = append(sum.DetLog, fmt.Sprintf("%d %d %016x %d %d", idx, res.Steps, res.Fingerprint, len(res.Violations), len(res.Crashes)))
		}
		if len(sum.Samples) < 2 && res.NonTrivial {
			pj, _ := json.Marshal(params)
			s, _ := json.Marshal(map[string]any{"seed": seed, "strategy": stratNames[res.Strategy], "steps": res.Steps,
				"params": json.RawMessage(truncJSON(pj, 1500)), "notes": res.Notes})
			sum.Samples = append(sum.Samples, s)
		}
		vs := violationsFor(prop, res)
		seen := map[string]bool{}
		for _, v := range vs {
			k := vkey(v)
			if seen[k] {
				continue
			}
			seen[k] = true
			sum.ViolCounts[k]++
			if reported[k] >= maxReports || knownKeys[k] || knownKeys[v.Class+"|*"] {
				continue
			}
			reported[k]++
			rp := writeReplay(t, fam, prop, params, seed, base, idx, tier, v, replayDir)
			sum.Violations = append(sum.Violations, ViolationReport{Violation: v, Replay: rp, Seed: seed})
		}
		if i%64 == 63 {
			runtime.GC()
			// goroutines wedged by a genuine defect stay parked in their dead
			// bubble; recycle the process before they pile up
			var ms runtime.MemStats
			runtime.ReadMemStats(&ms)
			// (the race detector's own memory is not in HeapAlloc and is never given back:
			// under the orchestrator's address-space limit a race-mode process that lives
			// for minutes dies with "ThreadSanitizer: out of memory"; such workers hand over
			// to a fresh process every 45 s, or earlier when their address space nears 8 GiB)
			if runtime.NumGoroutine() > 4000 || ms.HeapAlloc > 3<<30 || (raceMode && (time.Since(start) > 45*time.Second || vmSize() > 8<<30)) {
				sum.Recycled = true
				sum.NextIndex = i + 1
				break
			}
		}
	}
	sum.WallS = time.Since(start).Seconds()
	for fp := range fps {
		sum.FPs = append(sum.FPs, strconv.FormatUint(fp, 16))
	}
	sort.Strings(sum.FPs)
	b, _ := json.Marshal(sum)
	if outPath != "" {
		if err := os.WriteFile(outPath, b, 0o644); err != nil {
			t.Fatal(err)
		}
	} else {
		fmt.Println(string(b))
	}
}

func truncJSON(b []byte, n int) []byte {
	if len(b) <= n {
		return b
	}
	s, _ := json.Marshal(string(b[:n]) + "...")
	return s
}

// reproduces re-executes params under the tape (or a seed when tape is nil)
// and reports whether a violation with the same (class, site) shows up.
func reproduces(t *testing.T, fam *Family, prop string, params any, seed uint64, tape []string, want Violation) (*RunResult, bool) {
	o := RunOpts{Strategy: -1, Record: true, KeepHist: 60}
	if tape != nil {
		o.Replay = tape
	}
	res := RunOne(t, fam, params, seed, o)
	for _, v := range violationsFor(prop, res) {
		if vkey(v) == vkey(want) {
			return res, true
		}
	}
	return res, false
}

func cloneParams(fam *Family, p any) any {
	b, _ := json.Marshal(p)
	q := fam.New()
	json.Unmarshal(b, q)
	return q
}

func writeReplay(t *testing.T, fam *Family, prop string, params any, seed, base, idx uint64, tier string, v Violation, dir string) string {
	if dir == "" {
		return ""
	}
	rf := &ReplayFile{Property: prop, Class: v.Class, Site: v.Site, Detail: v.Detail, Family: fam.Name,
		Seed: seed, BaseSeed: base, Run: idx, Tier: tier}
	if os.Getenv("VERIF_ISOLATED") != "" {
		// the code under test keeps process-global state that synctest will not
		// share between bubbles: no second execution in this process. The file
		// replays from the seed in a fresh process.
		rf.ReproRate = "not re-executed in-process (isolated mode: one simulated run per process)"
		pj, _ := json.Marshal(params)
		rf.Params = pj
		return saveReplay(dir, rf)
	}
	// 1. record the tape of the failing run; check it reproduces from the seed
	res, ok := reproduces(t, fam, prop, params, seed, nil, v)
	if !ok {
		rf.ReproRate = "0/1 (seed re-execution did not reproduce: harness nondeterminism)"
		pj, _ := json.Marshal(params)
		rf.Params = pj
		return saveReplay(dir, rf)
	}
	tape := res.Tape
	rf.OrigSteps = len(tape)
	// 2. check the tape itself reproduces (params round-tripped through JSON)
	p2 := cloneParams(fam, params)
	if _, ok := reproduces(t, fam, prop, p2, seed, tape, v); !ok {
		rf.ReproRate = "tape replay failed; seed replay ok"
		pj, _ := json.Marshal(params)
		rf.Params = pj
		rf.Tape = tape
		return saveReplay(dir, rf)
	}
	// 3. minimise
	deadline := time.Now().Add(time.Duration(envInt("VERIF_MIN_MS", 20000)) * time.Millisecond)
	mp, mt, note := minimise(t, fam, prop, p2, seed, tape, v, deadline)
	// 4. reproduction rate of the final file
	okN := 0
	const R = 8
	var last *RunResult
	for i := 0; i < R; i++ {
		r, ok := reproduces(t, fam, prop, cloneParams(fam, mp), seed, mt, v)
		if ok {
			okN++
			last = r
		}
	}
	rf.ReproRate = fmt.Sprintf("%d/%d", okN, R)
	rf.Shrunk = note
	rf.Tape = mt
	rf.MinSteps = len(mt)
	pj, _ := json.Marshal(mp)
	rf.Params = pj
	if last != nil {
		rf.HistTail = last.HistTail
		rf.WaitGraph = last.WaitGraph
		for _, c := range last.Crashes {
			st := c.Stack
			if len(st) > 3000 {
				st = st[:3000]
			}
			rf.Crashes = append(rf.Crashes, c.Task+": "+c.Value+"\n"+st)
		}
		for _, vv := range violationsFor(prop, last) {
			if vkey(vv) == vkey(v) {
				rf.Detail = vv.Detail
				break
			}
		}
	}
	return saveReplay(dir, rf)
}

func saveReplay(dir string, rf *ReplayFile) string {
	os.MkdirAll(dir, 0o755)
	cls := strings.NewReplacer("/", "_", " ", "_", ":", "_", "|", "_").Replace(rf.Class)
	path := fmt.Sprintf("%s/%s-%s-%d.json", dir, rf.Property, cls, rf.Seed)
	b, _ := json.MarshalIndent(rf, "", " ")
	os.WriteFile(path, b, 0o644)
	return path
}

// TestReplay re-executes a replay file: exit status 1 (test failure) iff the
// same violation (class, site) of the same property is observed.
func TestReplay(t *testing.T) {
	path := os.Getenv("VERIF_REPLAY")
	if path == "" {
		t.Skip("set VERIF_REPLAY")
	}
	b, err := os.ReadFile(path)
	if err != nil {
		fmt.Printf("REPLAY-ERROR %v\n", err)
		os.Exit(2)
	}
	var rf ReplayFile
	if err := json.Unmarshal(b, &rf); err != nil {
		fmt.Printf("REPLAY-ERROR %v\n", err)
		os.Exit(2)
	}
	fam := families[rf.Family]
	if fam == nil {
		fmt.Printf("REPLAY-ERROR unknown family %s\n", rf.Family)
		os.Exit(2)
	}
	debug.SetGCPercent(-1)
	runtime.GOMAXPROCS(1)
	want := Violation{Property: rf.Property, Class: rf.Class, Site: rf.Site}
	tries := envInt("VERIF_REPLAY_TRIES", 3)
	for i := 0; i < tries; i++ {
		params := fam.New()
		if err := json.Unmarshal(rf.Params, params); err != nil {
			fmt.Printf("REPLAY-ERROR %v\n", err)
			os.Exit(2)
		}
		tape := rf.Tape
		res, ok := reproduces(t, fam, rf.Property, params, rf.Seed, tape, want)
		if res.Infra != "" {
			fmt.Printf("REPLAY-ERROR %s\n", res.Infra)
			os.Exit(2)
		}
		if ok {
			for _, v := range violationsFor(rf.Property, res) {
				if vkey(v) == vkey(want) {
					fmt.Printf("REPRODUCED property=%s class=%s site=%s diverged=%d\n%s\n", rf.Property, v.Class, v.Site, res.Diverged, v.Detail)
					break
				}
			}
			fmt.Printf("VIOLATION property=%s replay=%s\n", rf.Property, path)
			os.Exit(1)
		}
	}
	fmt.Printf("NOT-REPRODUCED property=%s class=%s site=%s\n", rf.Property, rf.Class, rf.Site)
}

// TestOne re-executes one run seed of a family and prints its history
// (developer aid): VERIF_FAMILY, VERIF_PROP, VERIF_ONE=<run seed>.
func TestOne(t *testing.T) {
	one := os.Getenv("VERIF_ONE")
	if one == "" {
		t.Skip()
	}
	fam := families[os.Getenv("VERIF_FAMILY")]
	seed, _ := strconv.ParseUint(one, 10, 64)
	if b := os.Getenv("VERIF_BASE"); b != "" {
		// VERIF_ONE is a run index under base seed VERIF_BASE, as in a determinism log
		base, _ := strconv.ParseUint(b, 10, 64)
		seed = runSeed(base, os.Getenv("VERIF_FAMILY"), seed)
	}
	runtime.GOMAXPROCS(envInt("VERIF_PROCS", 1))
	g := rand.New(rand.NewPCG(seed, 0x5eed))
	tier := os.Getenv("VERIF_TIER")
	if tier == "" {
		tier = "quick"
	}
	params := fam.Gen(g, tier)
	if fam.GenAt != nil && os.Getenv("VERIF_IDX") != "" {
		ix, _ := strconv.ParseUint(os.Getenv("VERIF_IDX"), 10, 64)
		params = fam.GenAt(ix, g, tier)
	}
	pj, _ := json.Marshal(params)
	fmt.Println("PARAMS", string(truncJSON(pj, 4000)))
	res := RunOne(t, fam, params, seed, RunOpts{Strategy: -1, KeepHist: envInt("VERIF_HIST", 200), Record: true})
	for _, ev := range res.HistTail {
		fmt.Printf("  %4d %-12s call=%d %s\n", ev.N, ev.Kind, ev.Call, ev.Info)
	}
	for _, v := range violationsFor(os.Getenv("VERIF_PROP"), res) {
		fmt.Println("VIOL", v.Class, v.Site, v.Detail)
	}
	fmt.Println("steps", res.Steps, "infra", res.Infra, "leaked", res.Leaked)
	if os.Getenv("VERIF_TAPE") != "" {
		for _, x := range res.Tape {
			fmt.Println("   ", x)
		}
	}
}

// vmSize: the process's virtual size in bytes (0 if /proc is not readable).
func vmSize() int64 {
	b, err := os.ReadFile("/proc/self/statm")
	if err != nil {
		return 0
	}
	var pages int64
	fmt.Sscanf(string(b), "%d", &pages)
	return pages * int64(os.Getpagesize())
}
