package verifsim

import (
	"sync"
	"context"
	"encoding/binary"
	"fmt"
	"io"
	"strconv"
	"time"

	"google.golang.org/grpc"
	"google.golang.org/grpc/codes"
	"google.golang.org/grpc/metadata"
	"google.golang.org/grpc/status"
	"google.golang.org/protobuf/types/known/wrapperspb"

	goat "github.com/avos-io/goat"
)

// RPC kinds.
const (
	KUnary = iota
	KSStream
	KCStream
	KBidi
)

var kindNames = []string{"unary", "sstream", "cstream", "bidi"}

const (
	SvcName   = "verif.Sim"
	CallKey   = "x-sim-call"
	ServerID  = "srv"
	ClientSrc = "cli"
)

var methodNames = []string{"/verif.Sim/Unary", "/verif.Sim/SStream", "/verif.Sim/CStream", "/verif.Sim/Bidi"}

var streamDescs = []*grpc.StreamDesc{
	nil,
	{StreamName: "SStream", ServerStreams: true},
	{StreamName: "CStream", ClientStreams: true},
	{StreamName: "Bidi", ServerStreams: true, ClientStreams: true},
}

// Op is one step of a client or handler program.
type Op struct {
	K  OpK               `json:"k"`
	N  int               `json:"n,omitempty"`
	D  time.Duration     `json:"d,omitempty"`
	MD map[string][]string `json:"md,omitempty"`
	// Fork: two sub-programs run as two tasks on the stream (K == 'f')
	A []Op `json:"a,omitempty"`
	B []Op `json:"b,omitempty"`
}

// OpK is an op code, written as a one-letter string in JSON.
type OpK byte

func (k OpK) MarshalJSON() ([]byte, error) { return []byte(`"` + string(rune(k)) + `"`), nil }
func (k *OpK) UnmarshalJSON(b []byte) error {
	if len(b) >= 3 && b[0] == '"' {
		*k = OpK(b[1])
		return nil
	}
	var n int
	if _, err := fmt.Sscanf(string(b), "%d", &n); err != nil {
		return err
	}
	*k = OpK(n)
	return nil
}

// StatusSpec is what a handler returns.
type StatusSpec struct {
	ErrKind int    `json:"ek"` // 0 status error, 1 wrapped status, 2 plain error, 3 context.Canceled, 4 context.DeadlineExceeded, 5 an error whose GRPCStatus() has code OK, 6 io.EOF, 7 wrapped io.EOF
	Code    int    `json:"code"`
	Msg     string `json:"msg"`
	Details int    `json:"details"` // number of detail messages
}

// CallSpec describes one RPC: both programs and the data they move.
type CallSpec struct {
	ID      int                 `json:"id"`
	Kind    int                 `json:"kind"`
	Conn    int                 `json:"conn,omitempty"`
	ReqMD   map[string][]string `json:"reqmd,omitempty"`
	Timeout time.Duration       `json:"timeout,omitempty"`
	AliasMD bool                `json:"alias_md,omitempty"` // the handler reuses one metadata object for all its SetHeader (and one for all its SetTrailer) calls, refilling it in between
	BothWays bool               `json:"both_ways,omitempty"` // C11: abandoned with traffic pending in both directions
	SeqCaller bool              `json:"seq_caller,omitempty"` // C11: a client-streaming caller that sends everything and only then receives (marker for probes)
	Stub    bool                `json:"stub,omitempty"` // server-streaming: the caller behaves like the generated code - if the request's SendMsg or the CloseSend fails it gets (nil, err) and never sees the stream
	BadReply int                `json:"bad_reply,omitempty"` // unary: 1 the handler returns a message the codec refuses (invalid UTF-8 in a string field), 2 a nil reply with a nil error
	PreDone int                 `json:"predone,omitempty"` // the caller's context is already finished when the call starts: 1 cancelled, 2 deadline passed
	Req     []byte              `json:"-"`
	Resp    []byte              `json:"-"`
	ReqLen  int                 `json:"reqlen"`
	RespLen int                 `json:"resplen"`
	CSendN  int                 `json:"csend"`
	HSendN  int                 `json:"hsend"`
	MsgLen  int                 `json:"msglen"`
	CProg   []Op                `json:"cprog,omitempty"`
	HProg   []Op                `json:"hprog,omitempty"`
	HStatus *StatusSpec         `json:"hstatus,omitempty"`
	NoTag   bool                `json:"notag,omitempty"` // do not attach x-sim-call (handler found by payload tag)
	Early   bool                `json:"early,omitempty"` // handler returns before EOF after consuming EarlyK messages
	EarlyK  int                 `json:"earlyk,omitempty"`
}

// CallRec is everything both sides observed about one call.
type CallRec struct {
	Spec *CallSpec

	// client
	Started     bool
	StartEv     int
	Returned    bool // Invoke returned / client program finished
	ReturnEv    int
	InvokeErr   error
	InvokeResp  []byte
	NewStreamErr error
	CSent       int
	CSendErr    []error
	CStubDropped bool // Spec.Stub: the generated code would have returned (nil, err)
	CFinalEv     int  // event number at which the first failing RecvMsg returned
	CGot        [][]byte
	CFinal      error
	CFinalSet   bool
	CRecvAfterFinal []error
	CHeader     metadata.MD
	CHeaderErr  error
	CHeaderSet  bool
	CTrailer    metadata.MD
	CTrailerSet bool
	hRecvObj, cRecvObj *wrapperspb.BytesValue // receive objects reused across RecvMsg calls (every other call)
	burst     chan struct{} // closed when the handler has sent its burst (op 'n') or returned
	burstOnce sync.Once
	hdrObj, trlObj metadata.MD // reused by the handler when Spec.AliasMD
	COverrun  bool // the caller received far more messages than the handler sends: the receive loop was cut
	CTrailerAgain []metadata.MD // further Trailer() reads (same stream, later)
	CHeaderAgain  []metadata.MD
	CloseErr    error
	CancelEv    int
	Cancel      context.CancelFunc
	Ctx         context.Context
	Stream      grpc.ClientStream
	CPanic      string

	// handler
	HInvoked   int
	HStartEv   int
	HGot       [][]byte
	HReq       []byte
	HRecvFinal error
	HRecvFinalSet bool
	HSent      int
	HSendErr   []error
	HSendNeverFails bool // op 'e': SendMsg kept succeeding although the handler's context had ended
	HReqMD     metadata.MD
	HDeadline  time.Time
	HHasDeadline bool
	HEntryTime time.Time
	HCtx       context.Context
	HReturned  bool
	HReturnEv  int
	HRetErr    error
	HCtxDoneEv int
}

// Payload layout: 'V' callID(u32) dir(u8) seq(u32) then filler derived from those.
func MakePayload(call int, dir byte, seq int, n int) []byte {
	if n == 0 {
		return []byte{}
	}
	b := make([]byte, n)
	var hdr [10]byte
	hdr[0] = 'V'
	binary.BigEndian.PutUint32(hdr[1:], uint32(call))
	hdr[5] = dir
	binary.BigEndian.PutUint32(hdr[6:], uint32(seq))
	copy(b, hdr[:])
	x := uint32(call*2654435761) ^ uint32(seq*40503) ^ uint32(dir)
	for i := 10; i < n; i++ {
		x = x*1664525 + 1013904223
		b[i] = byte(x >> 24)
	}
	return b
}

func payloadTag(b []byte) (call int, dir byte, seq int, ok bool) {
	if len(b) < 10 || b[0] != 'V' {
		return 0, 0, 0, false
	}
	return int(binary.BigEndian.Uint32(b[1:])), b[5], int(binary.BigEndian.Uint32(b[6:])), true
}

// Sim is the per-run RPC world: specs and records by call id, the service.
type Sim struct {
	E     *Env
	Calls map[int]*CallRec
	Order []int
	// DefaultHandler handles requests without a known call id (raw peers).
	DefaultUnary  func(ctx context.Context, req []byte) ([]byte, error)
	DefaultStream func(kind int, ss grpc.ServerStream) error
	UnknownCalls  int
	// hooks
	OnHandlerStart func(r *CallRec)
	barrier        map[int]chan struct{} // handler op 'B': closed once that handler has seen its context end
	gate           chan struct{}         // handler ops 'G' (wait) and 'g' (open)
	gateOnce       sync.Once
}

func (s *Sim) gateCh() chan struct{} {
	histMu.Lock()
	defer histMu.Unlock()
	if s.gate == nil {
		s.gate = make(chan struct{})
	}
	return s.gate
}

func NewSim(e *Env) *Sim {
	return &Sim{E: e, Calls: map[int]*CallRec{}}
}

func (s *Sim) Add(spec *CallSpec) *CallRec {
	if spec.Req == nil && spec.Kind == KUnary {
		spec.Req = MakePayload(spec.ID, 'q', 0, spec.ReqLen)
		spec.Resp = MakePayload(spec.ID, 'p', 0, spec.RespLen)
	}
	r := &CallRec{Spec: spec, burst: make(chan struct{})}
	histMu.Lock()
	s.Calls[spec.ID] = r
	s.Order = append(s.Order, spec.ID)
	histMu.Unlock()
	return r
}

func (s *Sim) rec(id int) *CallRec {
	histMu.Lock()
	defer histMu.Unlock()
	return s.Calls[id]
}

// Stream messages carry (call, direction, sequence) tags; MsgLen == -1 asks
// for empty messages (they encode to zero bytes on the wire), which carry no
// tag but are still compared by count and position.
func (s *Sim) cmsg(spec *CallSpec, i int) []byte {
	n := spec.MsgLen
	if n == -2 {
		// every other message is empty: an empty message after a non-empty one
		if i%2 == 1 {
			return []byte{}
		}
		n = 12
	}
	if n < 0 {
		return []byte{}
	}
	if n < 10 {
		n = 10
	}
	return MakePayload(spec.ID, 'c', i, n)
}
func (s *Sim) hmsg(spec *CallSpec, i int) []byte {
	n := spec.MsgLen
	if n == -2 {
		// every other message is empty: an empty message after a non-empty one
		if i%2 == 1 {
			return []byte{}
		}
		n = 12
	}
	if n < 0 {
		return []byte{}
	}
	if n < 10 {
		n = 10
	}
	return MakePayload(spec.ID, 'h', i, n)
}

// ServiceDesc for verif.Sim.
func (s *Sim) ServiceDesc() *grpc.ServiceDesc {
	return &grpc.ServiceDesc{
		ServiceName: SvcName,
		HandlerType: (*any)(nil),
		// (three unary methods: the one the scenarios call sits between two that nobody
		// calls and that answer differently - a method table that confuses them shows)
		Methods: []grpc.MethodDesc{{MethodName: "Aaa", Handler: auxUnary("aaa")}, {MethodName: "Unary", Handler: s.unaryHandler}, {MethodName: "Zzz", Handler: auxUnary("zzz")}},
		Streams: []grpc.StreamDesc{
			{StreamName: "SStream", ServerStreams: true, Handler: func(srv any, ss grpc.ServerStream) error { return s.streamHandler(KSStream, ss) }},
			{StreamName: "CStream", ClientStreams: true, Handler: func(srv any, ss grpc.ServerStream) error { return s.streamHandler(KCStream, ss) }},
			{StreamName: "Bidi", ServerStreams: true, ClientStreams: true, Handler: func(srv any, ss grpc.ServerStream) error { return s.streamHandler(KBidi, ss) }},
		},
	}
}

// auxUnary: a unary method of the service that no scenario calls.
func auxUnary(name string) func(srv any, ctx context.Context, dec func(any) error, ic grpc.UnaryServerInterceptor) (any, error) {
	return func(srv any, ctx context.Context, dec func(any) error, ic grpc.UnaryServerInterceptor) (any, error) {
		return nil, status.Errorf(codes.Unimplemented, "verif.Sim/%s was not called by anybody", name)
	}
}

func (s *Sim) NewServer(opts ...goat.ServerOption) *goat.Server {
	srv := goat.NewServer(ServerID, opts...)
	srv.RegisterService(s.ServiceDesc(), s)
	return srv
}

func callIDFromCtx(ctx context.Context) (int, bool) {
	md, ok := metadata.FromIncomingContext(ctx)
	if !ok {
		return 0, false
	}
	v := md.Get(CallKey)
	if len(v) == 0 {
		return 0, false
	}
	id, err := strconv.Atoi(v[0])
	return id, err == nil
}

func (sp *StatusSpec) Err() error {
	if sp == nil {
		return nil
	}
	st := status.New(codes.Code(sp.Code), sp.Msg)
	if sp.Details > 0 && sp.Code != 0 {
		msgs := detailMsgs(sp.Details)
		if st2, err := st.WithDetails(msgs...); err == nil {
			st = st2
		}
	}
	switch sp.ErrKind {
	case 0:
		return st.Err()
	case 1:
		return fmt.Errorf("wrapped: %w", st.Err())
	case 2:
		return fmt.Errorf("plain error: %s", sp.Msg)
	case 3:
		return context.Canceled
	case 4:
		return context.DeadlineExceeded
	case 6:
		// what `if err != nil { return err }` around Recv returns once the caller has
		// half-closed: an error like any other
		return io.EOF
	case 7:
		return fmt.Errorf("reading request: %w", io.EOF)
	case 5:
		// an error value that carries a gRPC status whose code is OK (e.g. a relay's
		// error type embedding the status its backend returned): still a failure
		return okCodedErr{msg: sp.Msg}
	}
	return st.Err()
}

type okCodedErr struct{ msg string }

func (e okCodedErr) Error() string              { return "relay failed: " + e.msg }
func (e okCodedErr) GRPCStatus() *status.Status { return status.New(codes.OK, e.msg) }

func (s *Sim) unaryHandler(srv any, ctx context.Context, dec func(any) error, ic grpc.UnaryServerInterceptor) (any, error) {
	in := new(wrapperspb.BytesValue)
	if err := dec(in); err != nil {
		return nil, err
	}
	h := func(ctx context.Context, req any) (any, error) {
		return s.unary(ctx, req.(*wrapperspb.BytesValue))
	}
	if ic == nil {
		return h(ctx, in)
	}
	return ic(ctx, in, &grpc.UnaryServerInfo{Server: srv, FullMethod: methodNames[KUnary]}, h)
}

func (s *Sim) unary(ctx context.Context, in *wrapperspb.BytesValue) (any, error) {
	e := s.E
	id, ok := callIDFromCtx(ctx)
	if !ok {
		if c, _, _, ok2 := payloadTag(in.GetValue()); ok2 {
			id, ok = c, true
		}
	}
	var r *CallRec
	if ok {
		r = s.rec(id)
	}
	if r == nil {
		histMu.Lock()
		s.UnknownCalls++
		histMu.Unlock()
		if s.DefaultUnary != nil {
			out, err := s.DefaultUnary(ctx, in.GetValue())
			if err != nil {
				return nil, err
			}
			return wrapperspb.Bytes(out), nil
		}
		return wrapperspb.Bytes(in.GetValue()), nil
	}
	histMu.Lock()
	r.HInvoked++
	r.HReq = append([]byte(nil), in.GetValue()...)
	r.HReqMD, _ = metadata.FromIncomingContext(ctx)
	r.HDeadline, r.HHasDeadline = ctx.Deadline()
	r.HEntryTime = time.Now()
	r.HCtx = ctx
	histMu.Unlock()
	r.HStartEv = e.Log("h.start", "", id, "")
	if s.OnHandlerStart != nil {
		s.OnHandlerStart(r)
	}
	spec := r.Spec
	for _, op := range spec.HProg {
		s.hop(r, ctx, nil, op)
	}
	// The driver decides when this worker finishes.
	e.Pt("h.reply")
	err := spec.HStatus.Err()
	histMu.Lock()
	r.HReturned = true
	r.HRetErr = err
	histMu.Unlock()
	r.HReturnEv = e.Log("h.ret", "", id, "")
	if err != nil {
		return nil, err
	}
	switch spec.BadReply {
	case 1:
		return wrapperspb.String("not utf-8: \xff\xfe"), nil
	case 2:
		return nil, nil
	}
	return wrapperspb.Bytes(spec.Resp), nil
}

func mdOf(m map[string][]string) metadata.MD {
	md := metadata.MD{}
	for k, v := range m {
		md[k] = append([]string(nil), v...)
	}
	return md
}

// scribble overwrites the values of a metadata object in place, element by element:
// what a handler does when it refills one scratch slice, or wipes a secret, after the
// call that took the metadata has returned.
func scribble(md metadata.MD) {
	for _, vs := range md {
		for i := range vs {
			vs[i] = "overwritten-after-the-call"
		}
	}
}

// hop executes one handler op. ss is nil for unary handlers.
func (s *Sim) hop(r *CallRec, ctx context.Context, ss grpc.ServerStream, op Op) (stop bool) {
	e := s.E
	id := r.Spec.ID
	switch op.K {
	case 'r', 'R':
		for i := 0; op.K == 'R' || i < max(op.N, 1); i++ {
			e.Pt("h.recv")
			m := new(wrapperspb.BytesValue)
			if r.Spec.ID%2 == 0 {
				// (half of the handlers receive into one message object, as code written
				// against ServerStream.RecvMsg does: decoding replaces what it held)
				if r.hRecvObj == nil {
					r.hRecvObj = new(wrapperspb.BytesValue)
				}
				m = r.hRecvObj
			}
			err := ss.RecvMsg(m)
			if err != nil {
				histMu.Lock()
				r.HRecvFinal, r.HRecvFinalSet = err, true
				histMu.Unlock()
				e.Log("h.recv.end", "", id, errStr(err))
				return op.K != 'R' && err != io.EOF
			}
			histMu.Lock()
			r.HGot = append(r.HGot, append([]byte(nil), m.GetValue()...))
			histMu.Unlock()
			e.Log("h.recv", "", id, "")
		}
	case 's':
		for i := 0; i < max(op.N, 1); i++ {
			e.Pt("h.send")
			histMu.Lock()
			k := r.HSent
			histMu.Unlock()
			err := ss.SendMsg(wrapperspb.Bytes(s.hmsg(r.Spec, k)))
			histMu.Lock()
			if err != nil {
				r.HSendErr = append(r.HSendErr, err)
			} else {
				r.HSent++
			}
			histMu.Unlock()
			e.Log("h.send", "", id, errStr(err))
			if err != nil {
				return true
			}
		}
	case 'e':
		// the usual shape of a producer: send until Send fails (the end of the call is
		// learnt from that error). Bounded: a Send that never fails on a call that is
		// over would spin for ever
		for i := 0; ; i++ {
			e.Pt("h.send")
			histMu.Lock()
			k := r.HSent
			histMu.Unlock()
			err := ss.SendMsg(wrapperspb.Bytes(s.hmsg(r.Spec, k)))
			histMu.Lock()
			if err != nil {
				r.HSendErr = append(r.HSendErr, err)
			} else {
				r.HSent++
			}
			histMu.Unlock()
			if err != nil {
				e.Log("h.send", "", id, errStr(err))
				return true
			}
			if i >= 300 && ctx.Err() == nil {
				// nobody holds these messages up (the caller's side drops them): enough
				// produced, wait for the end of the call like any handler
				e.Pt("h.await")
				<-ctx.Done()
				return true
			}
			if i >= 400 && ctx.Err() != nil {
				histMu.Lock()
				r.HSendNeverFails = true
				histMu.Unlock()
				e.Log("h.send.never-fails", "", id, "")
				<-e.tornDown()
				return true
			}
		}
	case 'H':
		e.Pt("h.sethdr")
		md := mdOf(op.MD)
		if r.Spec.AliasMD {
			// what was set is what the call was given at the time, not what the
			// handler's object holds later
			if r.hdrObj == nil {
				r.hdrObj = metadata.MD{}
			}
			for k := range r.hdrObj {
				delete(r.hdrObj, k)
			}
			for k, v := range md {
				r.hdrObj[k] = v
			}
			md = r.hdrObj
		}
		if ss != nil {
			ss.SetHeader(md)
		} else {
			grpc.SetHeader(ctx, md)
		}
		if r.Spec.AliasMD {
			scribble(md)
		}
	case 'S':
		e.Pt("h.sendhdr")
		if ss != nil {
			ss.SendHeader(mdOf(op.MD))
		} else {
			grpc.SendHeader(ctx, mdOf(op.MD))
		}
		e.Log("h.sendhdr", "", id, "")
	case 'L', 'M':
		// response metadata offered after the first message has gone out: too late, the
		// call must be refused and nothing of it may reach the wire
		e.Pt("h.latehdr")
		var err error
		switch {
		case ss == nil:
			err = grpc.SetHeader(ctx, mdOf(op.MD))
		case op.K == 'L':
			err = ss.SetHeader(mdOf(op.MD))
		default:
			err = ss.SendHeader(mdOf(op.MD))
		}
		e.Log("h.latehdr", "", id, errStr(err))
		e.Note("h.latehdr")
		if err == nil {
			e.Note("h.latehdr.accepted")
		}
	case 'T':
		e.Pt("h.settrl")
		md := mdOf(op.MD)
		if r.Spec.AliasMD {
			if r.trlObj == nil {
				r.trlObj = metadata.MD{}
			}
			for k := range r.trlObj {
				delete(r.trlObj, k)
			}
			for k, v := range md {
				r.trlObj[k] = v
			}
			md = r.trlObj
		}
		if ss != nil {
			ss.SetTrailer(md)
		} else {
			grpc.SetTrailer(ctx, md)
		}
		if r.Spec.AliasMD {
			scribble(md)
		}
	case 'w':
		e.Pt("h.await")
		<-ctx.Done()
		r.HCtxDoneEv = e.Log("h.ctxdone", "", id, "")
	case 'B':
		// a handler that belongs to a session spread over several streams: once its
		// context is done it returns only after every sibling registered so far has
		// been cancelled too
		ch := make(chan struct{})
		histMu.Lock()
		if s.barrier == nil {
			s.barrier = map[int]chan struct{}{}
		}
		s.barrier[id] = ch
		histMu.Unlock()
		e.Pt("h.await")
		<-ctx.Done()
		r.HCtxDoneEv = e.Log("h.ctxdone", "", id, "")
		close(ch)
		histMu.Lock()
		var sib []chan struct{}
		for k, c := range s.barrier {
			if k != id {
				sib = append(sib, c)
			}
		}
		histMu.Unlock()
		for _, c := range sib {
			<-c
		}
	case 'f':
		// two sub-programs of the handler run concurrently on the stream (one sender and
		// one goroutine making header / trailer calls, which the API permits)
		done := make(chan struct{})
		b := op.B
		e.Go(fmt.Sprintf("h%d.fork", id), func() {
			defer close(done)
			for _, o := range b {
				if s.hop(r, ctx, ss, o) {
					return
				}
			}
		})
		for _, o := range op.A {
			if s.hop(r, ctx, ss, o) {
				break
			}
		}
		e.Pt("h.join")
		<-done
	case 'G':
		// wait until another call's handler opens the gate
		e.Pt("h.gate.wait")
		<-s.gateCh()
	case 'g':
		e.Pt("h.gate.open")
		s.gateOnce.Do(func() { close(s.gateCh()) })
	case 'z':
		e.Pt("h.sleep")
		time.Sleep(op.D)
	case 'y':
		e.Pt("h.yield")
	case 'n':
		r.burstOnce.Do(func() { close(r.burst) })
	}
	return false
}

func (s *Sim) streamHandler(kind int, ss grpc.ServerStream) error {
	e := s.E
	ctx := ss.Context()
	id, ok := callIDFromCtx(ctx)
	var r *CallRec
	if ok {
		r = s.rec(id)
	}
	if r == nil {
		histMu.Lock()
		s.UnknownCalls++
		histMu.Unlock()
		if s.DefaultStream != nil {
			return s.DefaultStream(kind, ss)
		}
		// default: a handler that speaks first (a stream started for something no
		// caller opened must show on the wire), then consumes until EOF
		ss.SendMsg(wrapperspb.Bytes([]byte("handler-started-for-an-untagged-call")))
		for {
			m := new(wrapperspb.BytesValue)
			if err := ss.RecvMsg(m); err != nil {
				if err == io.EOF {
					return nil
				}
				return err
			}
		}
	}
	histMu.Lock()
	r.HInvoked++
	r.HReqMD, _ = metadata.FromIncomingContext(ctx)
	r.HDeadline, r.HHasDeadline = ctx.Deadline()
	r.HEntryTime = time.Now()
	r.HCtx = ctx
	histMu.Unlock()
	r.HStartEv = e.Log("h.start", "", id, "")
	if s.OnHandlerStart != nil {
		s.OnHandlerStart(r)
	}
	for _, op := range r.Spec.HProg {
		if s.hop(r, ctx, ss, op) {
			break
		}
	}
	e.Pt("h.return")
	r.burstOnce.Do(func() { close(r.burst) })
	err := r.Spec.HStatus.Err()
	histMu.Lock()
	r.HReturned = true
	r.HRetErr = err
	histMu.Unlock()
	r.HReturnEv = e.Log("h.ret", "", id, errStr(err))
	return err
}

func errStr(err error) string {
	if err == nil {
		return ""
	}
	return err.Error()
}

// ---------------------------------------------------------------------------
// Client side.

// RunCall executes the client program of a call on cc. It runs in the calling
// task.
func (s *Sim) RunCall(cc grpc.ClientConnInterface, r *CallRec) {
	s.RunCallCtx(cc, r, nil)
}

// RunCallCtx is RunCall with a caller-supplied base context.
func (s *Sim) RunCallCtx(cc grpc.ClientConnInterface, r *CallRec, base context.Context) {
	e := s.E
	spec := r.Spec
	defer func() {
		if p := recover(); p != nil {
			histMu.Lock()
			r.CPanic = fmt.Sprint(p)
			histMu.Unlock()
			panic(p)
		}
	}()
	ctx := context.Background()
	if base != nil {
		ctx = base
	}
	md := mdOf(spec.ReqMD)
	if !spec.NoTag {
		md.Set(CallKey, strconv.Itoa(spec.ID))
	}
	if len(md) > 0 {
		ctx = metadata.NewOutgoingContext(ctx, md)
	}
	var cancel context.CancelFunc
	if spec.Timeout > 0 {
		ctx, cancel = e.WithTimeout(ctx, spec.Timeout)
	} else {
		ctx, cancel = context.WithCancel(ctx)
	}
	switch spec.PreDone {
	case 1:
		cancel()
	case 2:
		cancel()
		ctx, cancel = context.WithDeadline(ctx, time.Now().Add(-time.Second))
	}
	histMu.Lock()
	r.Ctx, r.Cancel = ctx, cancel
	histMu.Unlock()
	e.OnTeardown(cancel)

	e.Pt("c.start")
	histMu.Lock()
	r.Started = true
	histMu.Unlock()
	r.StartEv = e.Log("c.start", "", spec.ID, kindNames[spec.Kind])
	if spec.Kind == KUnary {
		out := new(wrapperspb.BytesValue)
		err := cc.Invoke(ctx, methodNames[KUnary], wrapperspb.Bytes(spec.Req), out)
		histMu.Lock()
		r.InvokeErr = err
		if err == nil {
			r.InvokeResp = out.GetValue()
		}
		r.Returned = true
		histMu.Unlock()
		r.ReturnEv = e.Log("c.ret", "", spec.ID, errStr(err))
		return
	}
	st, err := cc.NewStream(ctx, streamDescs[spec.Kind], methodNames[spec.Kind])
	if err != nil {
		histMu.Lock()
		r.NewStreamErr = err
		r.Returned = true
		histMu.Unlock()
		r.ReturnEv = e.Log("c.ret", "", spec.ID, "newstream: "+errStr(err))
		return
	}
	histMu.Lock()
	r.Stream = st
	histMu.Unlock()
	e.Log("c.opened", "", spec.ID, "")
	s.cprog(r, st, spec.CProg, "")
	histMu.Lock()
	r.Returned = true
	histMu.Unlock()
	r.ReturnEv = e.Log("c.ret", "", spec.ID, "")
}

func (s *Sim) cprog(r *CallRec, st grpc.ClientStream, prog []Op, suffix string) {
	e := s.E
	id := r.Spec.ID
	for _, op := range prog {
		switch op.K {
		case 's':
			for i := 0; i < max(op.N, 1); i++ {
				e.Pt("c.send")
				histMu.Lock()
				k := r.CSent + len(r.CSendErr)
				histMu.Unlock()
				err := st.SendMsg(wrapperspb.Bytes(s.cmsg(r.Spec, k)))
				histMu.Lock()
				if err != nil {
					r.CSendErr = append(r.CSendErr, err)
				} else {
					r.CSent++
				}
				histMu.Unlock()
				e.Log("c.send", "", id, errStr(err))
				if err != nil && r.Spec.Stub {
					// what the generated code for a server-streaming method does: it hands
					// the caller (nil, err) and the stream object is gone
					histMu.Lock()
					r.CStubDropped = true
					histMu.Unlock()
					return
				}
				if err != nil {
					break
				}
			}
		case 'r', 'R':
			for i := 0; op.K == 'R' || i < max(op.N, 1); i++ {
				e.Pt("c.recv")
				e.Log("c.recv.call", "", id, "")
				m := new(wrapperspb.BytesValue)
				if r.Spec.ID%2 == 1 {
					if r.cRecvObj == nil {
						r.cRecvObj = new(wrapperspb.BytesValue)
					}
					m = r.cRecvObj
				}
				err := st.RecvMsg(m)
				histMu.Lock()
				if err != nil {
					if r.CFinalSet {
						r.CRecvAfterFinal = append(r.CRecvAfterFinal, err)
					} else {
						r.CFinal, r.CFinalSet = err, true
					}
				} else if r.CFinalSet {
					r.CRecvAfterFinal = append(r.CRecvAfterFinal, nil)
				} else {
					r.CGot = append(r.CGot, append([]byte(nil), m.GetValue()...))
				}
				overrun := err == nil && len(r.CGot)+len(r.CRecvAfterFinal) > r.Spec.HSendN+8
				if overrun {
					// more successful receives than the handler could ever have sent:
					// a receive that keeps "succeeding" must not spin the run to its step limit
					r.COverrun = true
				}
				histMu.Unlock()
				rev := e.Log("c.recv", "", id, errStr(err))
				if err != nil {
					histMu.Lock()
					if r.CFinalEv == 0 {
						r.CFinalEv = rev
					}
					histMu.Unlock()
				}
				if err != nil || overrun {
					break
				}
			}
		case 'c':
			e.Pt("c.close")
			err := st.CloseSend()
			histMu.Lock()
			if r.CloseErr == nil {
				// a program may half-close twice; the second call is idempotent and returns
				// nil, and must not hide that the first one failed
				r.CloseErr = err
			}
			histMu.Unlock()
			e.Log("c.close", "", id, errStr(err))
			if (op.N == 1 || r.Spec.Stub) && err != nil {
				// what the generated stubs do: the call is given up, the stream dropped
				histMu.Lock()
				r.CStubDropped = true
				histMu.Unlock()
				return
			}
		case 'h':
			e.Pt("c.header")
			md, err := st.Header()
			histMu.Lock()
			r.CHeader, r.CHeaderErr, r.CHeaderSet = md, err, true
			histMu.Unlock()
			e.Log("c.header", "", id, errStr(err))
			for k := 1; k < op.N && err == nil; k++ {
				e.Pt("c.header")
				again, _ := st.Header()
				histMu.Lock()
				r.CHeaderAgain = append(r.CHeaderAgain, again)
				histMu.Unlock()
			}
		case 't':
			e.Pt("c.trailer")
			md := st.Trailer()
			histMu.Lock()
			r.CTrailer, r.CTrailerSet = md, true
			histMu.Unlock()
			// asking again is allowed and must give the same answer
			for k := 1; k < op.N; k++ {
				e.Pt("c.trailer")
				again := st.Trailer()
				histMu.Lock()
				r.CTrailerAgain = append(r.CTrailerAgain, again)
				histMu.Unlock()
			}
		case 'x':
			e.Pt("c.cancel")
			r.Cancel()
			r.CancelEv = e.Log("c.cancel", "", id, "")
		case 'z':
			e.Pt("c.sleep")
			time.Sleep(op.D)
		case 'y':
			e.Pt("c.yield")
		case 'u':
			// a SendMsg that fails in the codec (the value is not a protobuf message):
			// by the grpc.ClientStream contract a failed SendMsg aborts the stream,
			// so the caller may walk away without cancelling
			e.Pt("c.send-unmarshalable")
			err := st.SendMsg(struct{ NotAMessage chan int }{})
			histMu.Lock()
			r.CSendErr = append(r.CSendErr, err)
			histMu.Unlock()
			r.CancelEv = e.Log("c.send-unmarshalable", "", id, errStr(err))
		case 'b':
			// a caller slow to start receiving: wait until the handler has sent its burst
			e.Pt("c.burstwait")
			select {
			case <-r.burst:
			case <-r.Ctx.Done():
			}
			if r.Spec.HSendN >= 17 {
				e.Note("burst.late>=17")
			} else {
				e.Note("burst.late<17")
			}
		case 'w':
			e.Pt("c.wait")
			<-r.Ctx.Done()
			e.Log("c.ctxdone", "", id, "")
		case 'f':
			done := make(chan struct{})
			name := fmt.Sprintf("call%d.fork%s", id, suffix)
			a, b := op.A, op.B
			e.Go(name, func() {
				defer close(done)
				s.cprog(r, st, b, suffix+"b")
			})
			s.cprog(r, st, a, suffix+"a")
			e.Pt("c.join")
			<-done
		}
	}
}
