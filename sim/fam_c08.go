package verifsim

import (
	"google.golang.org/grpc"
	"context"
	"fmt"
	"math"
	"math/rand/v2"
	"strconv"
	"strings"
	"time"

	"github.com/avos-io/goat/gen/goatorepo"
)

// C08 family A: caller deadlines end to end on the fake clock.

type C08AParams struct {
	Links     []LinkCfg     `json:"links"`
	Kind      int           `json:"kind"`
	Timeout   time.Duration `json:"timeout"`    // 0: no deadline; <0: already expired when the call is issued
	PreDelay  time.Duration `json:"pre_delay"`  // time between creating the context and issuing the call
	Transit   time.Duration `json:"transit"`    // transit time of the request
	BusyFor   time.Duration `json:"busy_for,omitempty"` // >0: unary - all eight unary workers of the connection are busy for this long when the request arrives; streaming - the server's writer is stuck in a stalled transport for this long while two other streams end
	MDTimeout string        `json:"md_timeout,omitempty"` // the caller's outgoing metadata carries a grpc-timeout entry of its own (a relay forwarding the metadata it received): it says nothing about this caller's deadline
	MDKey     string        `json:"md_key,omitempty"`
}

var c08Timeouts = []time.Duration{
	0, -time.Second, 1, 999 * time.Microsecond, time.Millisecond, 1500 * time.Microsecond, time.Second, time.Hour,
	99999999 * time.Millisecond, 100000000 * time.Millisecond, 27*time.Hour + 47*time.Minute, 10000 * time.Hour,
}

func genC08A(g *rand.Rand, tier string) any {
	p := &C08AParams{Links: drawLinks(g, 2), Kind: g.IntN(4)}
	p.Links[0].Cap, p.Links[1].Cap = -1, -1
	p.Links[0].Strict = false // an expired context must still let the request out for the handler to be observed
	if g.IntN(2) == 0 {
		p.Timeout = c08Timeouts[g.IntN(len(c08Timeouts))]
	} else {
		// log-uniform between 1 ns and 10^4 h
		x := g.Float64() * math.Log(float64(10000*time.Hour))
		p.Timeout = time.Duration(math.Exp(x))
	}
	switch g.IntN(3) {
	case 0:
		p.PreDelay = 0
	case 1:
		p.PreDelay = time.Duration(g.Int64N(int64(2 * time.Millisecond)))
	default:
		p.PreDelay = time.Duration(g.Int64N(int64(time.Second)))
	}
	if g.IntN(4) == 0 {
		// unary: the eight workers are busy; streaming: the connection's writer is stuck
		// in the transport and another stream is just ending
		p.BusyFor = time.Duration(1+g.Int64N(int64(5*time.Second)))
	}
	if g.IntN(5) == 0 {
		p.MDTimeout = []string{"250m", "1S", "10H", "1999m", "5n"}[g.IntN(5)]
		p.MDKey = []string{"grpc-timeout", "GRPC-Timeout", "Grpc-Timeout"}[g.IntN(3)]
	}
	switch g.IntN(3) {
	case 0:
		p.Transit = 0
	case 1:
		p.Transit = time.Duration(g.Int64N(int64(5 * time.Millisecond)))
	default:
		p.Transit = time.Duration(g.Int64N(int64(10 * time.Second)))
	}
	return p
}

func execC08A(e *Env, pp any) {
	p := pp.(*C08AParams)
	sim := NewSim(e)
	c := &CallSpec{ID: 1, Kind: p.Kind % 4, MsgLen: 10, ReqLen: 12, RespLen: 12}
	if c.Kind != KUnary {
		c.CSendN = 1
		c.CProg = []Op{{K: 'f', A: []Op{{K: 's'}, {K: 'c'}}, B: []Op{{K: 'R'}}}}
		c.HProg = []Op{{K: 'R'}}
	}
	if p.MDTimeout != "" {
		c.ReqMD = map[string][]string{p.MDKey: {p.MDTimeout}}
		e.Note("md.grpc-timeout")
	}
	r := sim.Add(c)
	srv := sim.NewServer()
	if p.BusyFor > 0 && c.Kind != KUnary && len(p.Links) > 1 {
		p.Links[1].Cap = 0 // towards the client a write returns only once the envelope was taken: a stalled link holds the server's writer
	}
	net := Build(e, TopoSpec{Kind: TopoDirect, Clients: 1, Links: p.Links}, srv, nil)
	c2s := net.CEnds[0].Out
	if p.BusyFor > 0 && c.Kind == KUnary {
		// eight unary calls whose handlers work for BusyFor occupy the connection's workers first
		var busy []*CallRec
		for i := 0; i < 8; i++ {
			bc := &CallSpec{ID: 10 + i, Kind: KUnary, ReqLen: 4, RespLen: 4, HProg: []Op{{K: 'z', D: p.BusyFor}}}
			br := sim.Add(bc)
			busy = append(busy, br)
			e.Go(fmt.Sprintf("caller.busy%d", i), func() { sim.RunCall(net.CCs[0], br) })
		}
		e.NoAutoAdvance = true
		rr := e.Drive(func() bool {
			for _, br := range busy {
				if br.HInvoked == 0 {
					return false
				}
			}
			return true
		})
		e.NoAutoAdvance = false
		if rr == Crashed || rr == StepLimit {
			return
		}
		e.Note("workers.busy")
	}
	writerStuck := false
	if p.BusyFor > 0 && c.Kind != KUnary {
		// the link towards the client stalls; two other streams end (their handlers return
		// at once): the first trailer occupies the connection's writer inside the
		// transport, the second waits for the writer
		net.CEnds[0].In.Stall()
		var ending []*CallRec
		for i := 0; i < 2; i++ {
			hc := &CallSpec{ID: 20 + i, Kind: KBidi, MsgLen: 10, CProg: []Op{{K: 'R'}}}
			hr := sim.Add(hc)
			ending = append(ending, hr)
			e.Go(fmt.Sprintf("caller.ending%d", i), func() { sim.RunCall(net.CCs[0], hr) })
		}
		e.NoAutoAdvance = true
		rr := e.Drive(func() bool {
			for _, hr := range ending {
				if !hr.HReturned {
					return false
				}
			}
			return true
		})
		if rr != Crashed && rr != StepLimit {
			rr = e.Drive(nil)
		}
		e.NoAutoAdvance = false
		if rr == Crashed || rr == StepLimit {
			return
		}
		writerStuck = true
		e.Note("writer.stuck")
		e.Note("fault.link.stall")
	}
	var tRead time.Time // when the server's transport handed the measured request to the server
	c2s.OnRead(func(n int, rq *Rpc) {
		if callOfEnvelope(rq) == 1 && tRead.IsZero() {
			tRead = time.Now()
		}
	})
	c2s.Stall()
	var D time.Time
	hasD := p.Timeout != 0
	var t1 time.Time
	// the caller creates its context now, waits PreDelay, then issues the call
	e.Go("caller", func() {
		ctx := context.Background()
		var cancel context.CancelFunc = func() {}
		if hasD {
			ctx, cancel = context.WithTimeout(ctx, p.Timeout)
			D, _ = ctx.Deadline()
		}
		e.OnTeardown(cancel)
		if p.PreDelay > 0 {
			time.Sleep(p.PreDelay)
		}
		t1 = time.Now()
		sim.RunCallCtx(net.CCs[0], r, ctx)
	})
	// run until the request is on the wire (or the call has failed locally)
	e.NoAutoAdvance = true
	for i := 0; i < 6; i++ {
		reason := e.Drive(func() bool { return c2s.Written() >= 1 || r.Returned })
		if reason == Crashed || reason == StepLimit {
			return
		}
		if reason == CondMet {
			break
		}
		// nothing enabled: the caller is sleeping its PreDelay
		e.Advance(p.PreDelay + time.Nanosecond)
	}
	e.NoAutoAdvance = false
	if c2s.Written() == 0 {
		e.Note("request.never.sent")
		e.Settle()
		return
	}
	if p.Transit > 0 {
		e.Advance(p.Transit)
		e.Note("fault.link.delay")
	}
	c2s.Unstall()
	if writerStuck {
		// the request is read while the writer is still stuck; the link recovers later
		e.NoAutoAdvance = true
		rr := e.Drive(nil)
		e.NoAutoAdvance = false
		if rr == Crashed || rr == StepLimit {
			return
		}
		e.Advance(p.BusyFor)
		net.CEnds[0].In.Unstall()
	}
	if e.Settle() == Crashed {
		return
	}
	const prop = "C08"
	site := kindNames[c.Kind]
	if r.HInvoked == 0 {
		// e.g. the open was withdrawn because the context expired first
		e.Note("handler.not.invoked")
		return
	}
	e.Note("nontrivial")
	e.Log(fmt.Sprintf("deadline.%v.%v.%v", p.Timeout, p.PreDelay, p.Transit), "", 0, "")
	t2 := r.HEntryTime
	if !hasD {
		e.Note("deadline.none")
		if r.HHasDeadline {
			e.Violate(prop, "deadline-invented", site, "the caller has no deadline but the handler's context has one (%v from entry)", r.HDeadline.Sub(t2))
		}
		return
	}
	if !r.HHasDeadline {
		e.Violate(prop, "deadline-lost", site, "the caller's context has a deadline (timeout %v) but the handler's context has none", p.Timeout)
		return
	}
	Dh := r.HDeadline
	remaining := D.Sub(t1)
	if remaining < time.Millisecond {
		e.Note("deadline.sub-millisecond")
		// conveyed as one millisecond
		if Dh.Before(t1.Add(time.Millisecond)) || Dh.After(t2.Add(time.Millisecond)) {
			e.Violate(prop, "short-deadline-not-1ms", site, "caller deadline %v from issue (<1ms): handler deadline is %v after handler entry, want 1ms after the request was processed (entry %v after issue)", remaining, Dh.Sub(t2), t2.Sub(t1))
		}
		return
	}
	if Dh.Before(D.Add(-time.Millisecond)) {
		e.Violate(prop, "deadline-too-early", site, "handler deadline is %v earlier than the caller's (timeout %v, pre-delay %v, transit %v)", D.Sub(Dh), p.Timeout, p.PreDelay, p.Transit)
	}
	if !tRead.IsZero() && Dh.After(D.Add(tRead.Sub(t1)).Add(time.Millisecond)) {
		// transit ends when the server has the request; time the request then waits
		// for a free worker is not transit
		e.Violate(prop, "deadline-too-late", site+".queued", "handler deadline is %v later than the caller's; the request was in transit for %v and then waited %v for a worker (timeout %v)", Dh.Sub(D), tRead.Sub(t1), t2.Sub(tRead), p.Timeout)
	} else if Dh.After(D.Add(t2.Sub(t1))) {
		e.Violate(prop, "deadline-too-late", site, "handler deadline is %v later than the caller's, more than the transit time %v (timeout %v)", Dh.Sub(D), t2.Sub(t1), p.Timeout)
	}
	if p.Timeout >= 27*time.Hour+46*time.Minute+40*time.Second {
		e.Note("deadline.9-digit-ms")
	}
}

// ---------------------------------------------------------------------------
// C08 family B: the timeout header grammar through the real server path.

type C08BParams struct {
	Key   string `json:"key"`
	Value string `json:"value"`
	Kind  int    `json:"kind"` // 0 unary, 3 bidi
	BadBin int   `json:"bad_bin,omitempty"` // the request also carries a binary metadata entry that cannot be decoded: 1 before, 2 after the timeout entry
}

var c08Units = "HMSmun"

func genC08B(g *rand.Rand, tier string) any {
	p := &C08BParams{Kind: []int{KUnary, KBidi}[g.IntN(2)]}
	key := []byte("grpc-timeout")
	for i := range key {
		if key[i] >= 'a' && key[i] <= 'z' && g.IntN(2) == 0 {
			key[i] -= 32
		}
	}
	p.Key = string(key)
	u := string(c08Units[g.IntN(6)])
	digits := func(n int) string {
		b := make([]byte, n)
		for i := range b {
			b[i] = byte('0' + g.IntN(10))
		}
		return string(b)
	}
	switch g.IntN(12) {
	case 0, 1, 2: // valid, random digit count 1..8
		p.Value = digits(1+g.IntN(8)) + u
	case 3: // boundaries
		k := 1 + g.IntN(8)
		p.Value = []string{"0", "1", strings.Repeat("9", k), "1" + strings.Repeat("0", k-1)}[g.IntN(4)] + u
	case 4: // overflow candidates
		p.Value = []string{"99999999H", "99999999M", "9999999H", "3000000H", "2562048H", "2562047H", "99999999S"}[g.IntN(7)]
	case 5: // overlong
		p.Value = digits(9+g.IntN(12)) + u
	case 6: // signed
		p.Value = []string{"+", "-"}[g.IntN(2)] + digits(1+g.IntN(6)) + u
	case 7:
		p.Value = []string{"", u, digits(3), "5 S", " 5S", "5S ", "5x", "5s", "5h", "٥S", "5.5S", "0x5S", "1e3S", "5SS", "S5"}[g.IntN(15)]
	case 8:
		p.Value = digits(1+g.IntN(8)) + string(rune("HMSmun"[g.IntN(6)]))
	default:
		p.Value = digits(1+g.IntN(8)) + u
	}
	if g.IntN(8) == 0 {
		p.BadBin = 1 + g.IntN(2)
	}
	return p
}

// refTimeout is an independent reading of the gRPC wire format: 1..8 digits
// followed by one unit; the value saturates at the largest duration.
// overlong: all-digit prefix of more than 8 digits (either reading accepted).
func refTimeout(v string) (d time.Duration, valid bool, overlong bool) {
	if len(v) < 2 {
		return 0, false, false
	}
	unit := v[len(v)-1]
	num := v[:len(v)-1]
	var mult time.Duration
	switch unit {
	case 'H':
		mult = time.Hour
	case 'M':
		mult = time.Minute
	case 'S':
		mult = time.Second
	case 'm':
		mult = time.Millisecond
	case 'u':
		mult = time.Microsecond
	case 'n':
		mult = time.Nanosecond
	default:
		return 0, false, false
	}
	for i := 0; i < len(num); i++ {
		if num[i] < '0' || num[i] > '9' {
			return 0, false, false
		}
	}
	n, err := strconv.ParseUint(num, 10, 64)
	sat := time.Duration(math.MaxInt64)
	if err != nil {
		d = sat
	} else if n > uint64(math.MaxInt64)/uint64(mult) {
		d = sat
	} else {
		d = time.Duration(n) * mult
	}
	if len(num) > 8 {
		return d, false, true
	}
	return d, true, false
}

func execC08B(e *Env, pp any) {
	p := pp.(*C08BParams)
	sim := NewSim(e)
	var got time.Duration
	var has, ran bool
	record := func(ctx context.Context) {
		dl, ok := ctx.Deadline()
		has, ran = ok, true
		if ok {
			got = time.Until(dl)
		}
	}
	sim.DefaultUnary = func(ctx context.Context, req []byte) ([]byte, error) {
		record(ctx)
		return req, nil
	}
	srv := sim.NewServer()
	a, b := e.NewConn("c0", LinkCfg{Cap: -1}, LinkCfg{Cap: -1})
	net := &Net{E: e, Srv: srv}
	net.startServe("serve0", b)
	kind := KUnary
	if p.Kind == KBidi {
		kind = KBidi
	}
	// for streams the handler is found through x-sim-call
	cs := &CallSpec{ID: 7, Kind: KBidi, HProg: []Op{{K: 'y'}}}
	sim.Add(cs)
	sim.OnHandlerStart = func(r *CallRec) { record(r.HCtx) }
	// (a handler that runs without the request's metadata is not found through x-sim-call)
	sim.DefaultStream = func(kind int, ss grpc.ServerStream) error {
		record(ss.Context())
		return nil
	}
	rctx, cancel := context.WithCancel(context.Background())
	e.OnTeardown(cancel)
	e.Go("raw", func() {
		h := &goatorepo.RequestHeader{Method: methodNames[kind], Source: "raw", Destination: ServerID,
			Headers: []*goatorepo.KeyValue{{Key: p.Key, Value: p.Value}}}
		bad := &goatorepo.KeyValue{Key: []string{"trace-bin", "Trace-Bin"}[len(p.Value)%2], Value: []string{"%%%", "+/8=", "AQI"}[len(p.Key+p.Value)%3]}
		switch p.BadBin {
		case 1:
			h.Headers = append([]*goatorepo.KeyValue{bad}, h.Headers...)
		case 2:
			h.Headers = append(h.Headers, bad)
		}
		if kind == KUnary {
			a.Write(rctx, &Rpc{Id: 1, Header: h, Body: bytesBody([]byte("x"))})
		} else {
			h.Headers = append(h.Headers, &goatorepo.KeyValue{Key: CallKey, Value: "7"})
			a.Write(rctx, &Rpc{Id: 1, Header: h})
		}
		for {
			if _, err := a.Read(rctx); err != nil {
				return
			}
		}
	})
	e.NoAutoAdvance = true
	reason := e.Drive(func() bool { return ran })
	e.NoAutoAdvance = false
	if reason == Crashed || reason == StepLimit {
		return
	}
	const prop = "C08"
	site := "header." + kindNames[kind]
	if p.BadBin != 0 {
		// a request whose metadata cannot be decoded is refused; if a handler runs for it
		// all the same, the timeout it carries still counts
		site += ".next-to-undecodable-metadata"
		e.Note("nontrivial")
		e.Note("header.bad-bin")
		if !ran {
			return
		}
	}
	if !ran {
		e.Violate(prop, "handler-not-run", site, "a well-formed request with timeout header %q=%q did not reach its handler", p.Key, p.Value)
		return
	}
	e.Note("nontrivial")
	want, valid, overlong := refTimeout(p.Value)
	e.Log("timeout."+p.Value, "", 0, "")
	switch {
	case valid:
		e.Note("grammar.valid")
		if !has {
			e.Violate(prop, "valid-timeout-ignored", site, "timeout header %q is admitted by the wire format (%v) but the handler has no deadline", p.Value, want)
		} else if got != want {
			cls := "timeout-misread"
			if want == time.Duration(math.MaxInt64) || got < 0 || got < want {
				cls = "timeout-overflow"
			}
			e.Violate(prop, cls, site, "timeout header %q means %v (saturating), the handler's deadline is %v away", p.Value, want, got)
		}
		if want == time.Duration(math.MaxInt64) {
			e.Note("grammar.saturating")
		}
	case overlong:
		e.Note("grammar.overlong")
		if has && got != want {
			e.Violate(prop, "timeout-misread", site, "overlong timeout header %q: the handler's deadline is %v away, neither ignored nor its numeric value %v", p.Value, got, want)
		}
	default:
		e.Note("grammar.malformed")
		if has {
			e.Violate(prop, "malformed-timeout-accepted", malformedSite(p.Value), "malformed timeout header %q was not ignored: the handler's deadline is %v away", p.Value, got)
		}
	}
}

func malformedSite(v string) string {
	if len(v) > 0 && (v[0] == '+' || v[0] == '-') {
		return "signed"
	}
	return "other"
}

var _ = fmt.Sprint

func init() {
	Register(&Family{Name: "c08.deadline", Props: []string{"C08"}, New: func() any { return &C08AParams{} }, Gen: genC08A, Exec: execC08A,
		Faulty: true, FaultKinds: []string{"link.delay", "ctx.deadline"}})
	Register(&Family{Name: "c08.header", Props: []string{"C08"}, New: func() any { return &C08BParams{} }, Gen: genC08B, Exec: execC08B})
}
