package verifsim

import (
	"os"
	"testing"

	"github.com/rs/zerolog"
)

func TestMain(m *testing.M) {
	zerolog.SetGlobalLevel(zerolog.Disabled)
	os.Exit(m.Run())
}
