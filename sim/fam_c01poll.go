package verifsim

import (
	"fmt"
	"math/rand/v2"
)

// c01.rendezvous: unary handlers that wait for one another, the way a long-poll or
// rendezvous service is written: n callers park in the handler until one further
// call releases them. Any number of calls in flight at once (C01: 1..64) includes
// n+1 calls of which n are waiting for the last.

type C01PollParams struct {
	Links []LinkCfg `json:"links"`
	N     int       `json:"n"` // parked calls
}

func genC01Poll(g *rand.Rand, tier string) any {
	p := &C01PollParams{Links: drawLinks(g, 2), N: 1 + g.IntN(12)}
	p.Links[0].Cap, p.Links[1].Cap = -1, -1
	return p
}

func execC01Poll(e *Env, pp any) {
	p := pp.(*C01PollParams)
	sim := NewSim(e)
	var parked []*CallRec
	for i := 0; i < p.N; i++ {
		parked = append(parked, sim.Add(&CallSpec{ID: 1 + i, Kind: KUnary, ReqLen: 12, RespLen: 12, HProg: []Op{{K: 'G'}}}))
	}
	rel := sim.Add(&CallSpec{ID: 100, Kind: KUnary, ReqLen: 12, RespLen: 12, HProg: []Op{{K: 'g'}}})
	srv := sim.NewServer()
	net := Build(e, TopoSpec{Kind: TopoDirect, Clients: 1, Links: p.Links}, srv, nil)
	for _, r := range parked {
		r := r
		e.Go(fmt.Sprintf("caller.c%d", r.Spec.ID), func() { sim.RunCall(net.CCs[0], r) })
	}
	// the releasing call starts once the others are where they are going to wait
	e.NoAutoAdvance = true
	rr := e.Drive(nil)
	e.NoAutoAdvance = false
	if rr == Crashed || rr == StepLimit {
		return
	}
	e.Go("caller.release", func() { sim.RunCall(net.CCs[0], rel) })
	if rr := e.Settle(); rr == Crashed || rr == StepLimit {
		return
	}
	e.Note("nontrivial")
	e.Note(fmt.Sprintf("rendezvous.parked%d", min(p.N, 9)))
	hung := 0
	for _, id := range sim.Order {
		if !sim.Calls[id].Returned {
			hung++
		}
	}
	if hung > 0 {
		site := "unary.rendezvous"
		if p.N >= 8 {
			site = "unary.eight-workers-parked"
		}
		e.Violate("C01", "hang", site, "%d unary calls wait in their handlers for one further call; that call (and with it all %d) never completes: its request is never handed to a handler\n%s", p.N, hung, e.WaitGraph())
		return
	}
	checkUnaryPairing(e, sim, "C01")
}

func init() {
	Register(&Family{Name: "c01.rendezvous", Props: []string{"C01"}, New: func() any { return &C01PollParams{} }, Gen: genC01Poll, Exec: execC01Poll, ShrinkKeys: []string{}})
}
