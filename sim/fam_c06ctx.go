package verifsim

import (
	"fmt"
	"math/rand/v2"
)

// c06.servectx: the context handed to Serve is cancelled while handlers are in flight
// (C10's workloads, a different event). Whatever Serve makes of that - go on serving
// or return - the wire stays consistent with it: as long as Serve has not returned
// the connection is alive, and a handler that returns on a stream its caller has not
// reset is answered with a trailer.

func genC06ServeCtx(g *rand.Rand, tier string) any {
	p := genC10(g, tier).(*C10Params)
	p.Fault = 3
	p.StallOut = false
	p.Links[1].Cap = -1
	return p
}

func execC06ServeCtx(e *Env, pp any) {
	p := pp.(*C10Params)
	sim := NewSim(e)
	for _, c := range p.Calls {
		if c != nil {
			sim.Add(c)
		}
	}
	srv := sim.NewServer()
	net := Build(e, TopoSpec{Kind: TopoDirect, Clients: 1, Links: p.Links}, srv, nil)
	sr := net.Serves[0]
	for _, c := range p.Calls {
		if c == nil {
			continue
		}
		r := sim.Calls[c.ID]
		e.Go(fmt.Sprintf("caller.c%d", c.ID), func() { sim.RunCall(net.CCs[0], r) })
	}
	e.NoAutoAdvance = true
	reason := e.Drive(func() bool { return e.EvCount() >= p.Pos })
	e.NoAutoAdvance = false
	if reason == Crashed || reason == StepLimit {
		return
	}
	inflight := 0
	for _, id := range sim.Order {
		if r := sim.Calls[id]; r.HInvoked > 0 && !r.HReturned {
			inflight++
		}
	}
	e.Log("fault", "", 0, "serve-ctx-cancel")
	sr.Cancel()
	e.Note("fault.serve.ctx-cancel")
	if inflight > 0 {
		e.Note("fault.inflight")
		e.Note("nontrivial")
	}
	// judged before any timer fires: a caller deadline (hours away) would otherwise
	// turn every unanswered stream into a reset one
	e.NoAutoAdvance = true
	reason = e.Drive(nil)
	e.NoAutoAdvance = false
	if reason == Crashed || reason == StepLimit {
		return
	}
	if sr.Returned {
		e.Note("servectx.serve-returned")
	} else {
		e.Note("servectx.serve-goes-on")
	}
	c2s, s2c := net.EmitLinks()
	checkWireLinks(e, sim, c2s, s2c, sr.Returned)
}

func init() {
	Register(&Family{Name: "c06.servectx", ShrinkKeys: []string{"calls", "pos"}, Props: []string{"C06"}, New: func() any { return &C10Params{} }, Gen: genC06ServeCtx, Exec: execC06ServeCtx,
		Faulty: true, FaultKinds: []string{"serve.ctx-cancel"}})
}
