package verifsim

import (
	"math/rand/v2"
	"time"
)

// c15.hdr: header and trailer calls concurrent with sends, on both sides: the handler
// sends from one goroutine while another calls SetHeader / SendHeader / SetTrailer;
// the caller sends from one goroutine while another asks for Header, receives and asks
// for Trailer. Judged by the race detector only (C15); which SetHeader calls still make
// it into the headers depends on the schedule and is not judged.

func genC15Hdr(g *rand.Rand, tier string) any {
	p := &MixParams{}
	p.Topo.Kind = TopoDirect
	p.Topo.Clients = 1
	p.Topo.Links = drawLinks(g, 4)
	for i := range p.Topo.Links {
		p.Topo.Links[i].Cap = -1
	}
	n := 1 + g.IntN(4)
	for i := 0; i < n; i++ {
		c := &CallSpec{ID: i + 1, Kind: []int{KBidi, KSStream}[g.IntN(2)], MsgLen: 16}
		c.HSendN = 1 + g.IntN(4)
		c.CSendN = 1
		var hb []Op
		for k := 1 + g.IntN(4); k > 0; k-- {
			switch g.IntN(3) {
			case 0:
				hb = append(hb, Op{K: 'H', MD: drawMD(g, 3)})
			case 1:
				hb = append(hb, Op{K: 'S', MD: drawMD(g, 3)})
			default:
				hb = append(hb, Op{K: 'T', MD: drawMD(g, 3)})
			}
		}
		c.HProg = []Op{{K: 'r'}, {K: 'f', A: []Op{{K: 's', N: c.HSendN}}, B: hb}}
		c.CProg = []Op{{K: 'f', A: []Op{{K: 's'}, {K: 'c'}}, B: []Op{{K: 'h'}, {K: 'R'}, {K: 't'}}}}
		p.Calls = append(p.Calls, c)
		p.Callers = append(p.Callers, Caller{Conn: 0, Calls: []int{c.ID}})
	}
	for k := g.IntN(3); k > 0; k-- {
		// a unary handler that fans out: one goroutine sends its headers, another sets
		// more headers and trailers (grpc.SendHeader / SetHeader / SetTrailer on the
		// handler's context are safe for concurrent use)
		c := &CallSpec{ID: len(p.Calls) + 1, Kind: KUnary, ReqLen: 12, RespLen: 12}
		var hb []Op
		for j := 1 + g.IntN(3); j > 0; j-- {
			if g.IntN(2) == 0 {
				hb = append(hb, Op{K: 'H', MD: drawMD(g, 3)})
			} else {
				hb = append(hb, Op{K: 'T', MD: drawMD(g, 3)})
			}
		}
		c.HProg = []Op{{K: 'f', A: []Op{{K: 'S', MD: drawMD(g, 3)}}, B: hb}}
		p.Calls = append(p.Calls, c)
		p.Callers = append(p.Callers, Caller{Conn: 0, Calls: []int{c.ID}})
	}
	if g.IntN(2) == 0 {
		// a call the peer finishes before its caller has touched the stream object (a
		// handler, or an interceptor, that refuses it at once): whatever the library sets
		// on the stream after creating it meets the stream's end-of-life code
		for k := 1 + g.IntN(2); k > 0; k-- {
			c := &CallSpec{ID: len(p.Calls) + 1, Kind: []int{KSStream, KCStream, KBidi}[g.IntN(3)], MsgLen: 16, CSendN: 1, Stub: true, Early: true}
			c.CProg = []Op{{K: 'z', D: time.Millisecond}, {K: 's'}, {K: 'c'}, {K: 'R'}}
			if g.IntN(2) == 0 {
				c.HStatus = &StatusSpec{Code: 7, Msg: "refused"}
			}
			p.Calls = append(p.Calls, c)
			p.Callers = append(p.Callers, Caller{Conn: 0, Calls: []int{c.ID}})
		}
	}
	return p
}

func execC15Hdr(e *Env, pp any) {
	p := pp.(*MixParams)
	sim := NewSim(e)
	for _, c := range p.Calls {
		if c != nil {
			sim.Add(c)
		}
	}
	srv := sim.NewServer()
	net := Build(e, p.Topo, srv, nil)
	for i, cl := range p.Callers {
		cl := cl
		e.Go(callerName(i, cl), func() {
			for _, id := range cl.Calls {
				if r := sim.Calls[id]; r != nil {
					sim.RunCall(net.CCs[0], r)
				}
			}
		})
	}
	if rr := e.Settle(); rr == Crashed || rr == StepLimit {
		return
	}
	e.Note("nontrivial")
	e.Note("c15.concurrent-header-calls")
	for _, id := range sim.Order {
		if r := sim.Calls[id]; r.Started && !r.Returned {
			e.Violate("C15", "hang", "hdr", "call %d has not completed\n%s", id, e.WaitGraph())
		}
	}
}

func init() {
	Register(&Family{Name: "c15.hdr", Props: []string{"C15"}, New: func() any { return &MixParams{} }, Gen: genC15Hdr, Exec: execC15Hdr, ShrinkKeys: []string{"callers"}})
}
