package verifsim

import (
	"bytes"
	"math/rand/v2"
	"time"

	goat "github.com/avos-io/goat"
)

// c05.reconnect: a client behind a proxy (server side demultiplexed by source, as the
// library intends) loses its connection while a call is in flight and attaches again
// under its name with a new ClientConn, whose ids start at 1 again. Nothing tells the
// server side that the first incarnation has gone, so its handler still answers - under
// an id that now belongs to a call of the new incarnation.

type C05ReParams struct {
	Links  []LinkCfg     `json:"links"`
	Kind   int           `json:"kind"`    // kind of the new incarnation's call: unary or server-streaming
	OldFor time.Duration `json:"old_for"` // how long the old incarnation's handler works
	NewFor time.Duration `json:"new_for"` // how long the new call's handler works
}

func genC05Re(g *rand.Rand, tier string) any {
	p := &C05ReParams{Links: drawLinks(g, 8)}
	for i := range p.Links {
		p.Links[i].Cap = -1
	}
	p.Kind = []int{KUnary, KSStream}[g.IntN(2)]
	p.OldFor = time.Duration(1+g.IntN(5)) * time.Second
	p.NewFor = time.Duration(1+g.IntN(5)) * time.Second
	return p
}

func execC05Re(e *Env, pp any) {
	p := pp.(*C05ReParams)
	sim := NewSim(e)
	old := sim.Add(&CallSpec{ID: 1, Kind: KUnary, ReqLen: 16, RespLen: 16, HProg: []Op{{K: 'z', D: p.OldFor}}})
	nw := &CallSpec{ID: 2, Kind: p.Kind, ReqLen: 16, RespLen: 16, MsgLen: 16}
	if p.Kind == KUnary {
		nw.HProg = []Op{{K: 'z', D: p.NewFor}}
	} else {
		nw.CSendN, nw.HSendN = 1, 1
		nw.CProg = []Op{{K: 's'}, {K: 'c'}, {K: 'R'}}
		nw.HProg = []Op{{K: 'r'}, {K: 'z', D: p.NewFor}, {K: 's'}}
	}
	nr := sim.Add(nw)
	srv := sim.NewServer()
	net := Build(e, TopoSpec{Kind: TopoProxyDemux, Clients: 1, Links: p.Links}, srv, nil)
	e.Go("caller.old", func() { sim.RunCall(net.CCs[0], old) })
	e.NoAutoAdvance = true
	rr := e.Drive(func() bool { return old.HInvoked > 0 })
	if rr == Crashed || rr == StepLimit {
		e.NoAutoAdvance = false
		return
	}
	if rr != CondMet {
		e.NoAutoAdvance = false
		e.Settle()
		return
	}
	// the client's connection breaks (both directions, both ends): the old caller fails,
	// the proxy drops the attachment
	ce := net.CEnds[0]
	ce.In.FailRead(ErrInjected)
	ce.Out.FailWrite(ErrInjected)
	ce.Out.FailRead(ErrInjected)
	ce.In.FailWrite(ErrInjected)
	e.Note("fault.link.readFail")
	rr = e.Drive(nil)
	e.NoAutoAdvance = false
	if rr == Crashed || rr == StepLimit {
		return
	}
	// the client comes back under its name
	ca, cb := e.NewConn("c0b", LinkCfg{Cap: -1, Serialise: p.Links[0].Serialise}, LinkCfg{Cap: -1, Serialise: p.Links[1].Serialise})
	net.Proxy.AddClient(clientName(0), cb)
	cc2 := goat.NewClientConn(ca, clientName(0), ServerID)
	e.Note("fault.peer.reattach")
	e.Go("caller.new", func() { sim.RunCall(cc2, nr) })
	if rr := e.Settle(); rr == Crashed || rr == StepLimit {
		return
	}
	e.Note("nontrivial")
	if p.OldFor < p.NewFor {
		e.Note("reconnect.old-answers-first")
	}
	const prop = "C05"
	site := "proxy.reconnect." + kindNames[p.Kind]
	if !nr.Returned {
		e.Violate(prop, "hang", site, "the reconnected client's call has not completed\n%s", e.WaitGraph())
		return
	}
	if p.Kind == KUnary {
		if nr.InvokeErr == nil && !bytes.Equal(nr.InvokeResp, nw.Resp) {
			c, d, _, _ := payloadTag(nr.InvokeResp)
			e.Violate(prop, "reply-of-previous-incarnation", site, "the reconnected client's unary call (its first, id 1 of the new connection) returned %d bytes tagged (call=%d dir=%c): the reply of the call its previous connection had in flight under the same id", len(nr.InvokeResp), c, d)
		} else if nr.InvokeErr != nil {
			e.Violate(prop, "reply-of-previous-incarnation", site, "the reconnected client's unary call failed with %v after an envelope addressed to its previous connection's call reached it", nr.InvokeErr)
		}
		return
	}
	for i, m := range nr.CGot {
		if !bytes.Equal(m, sim.hmsg(nw, i)) {
			c, d, _, _ := payloadTag(m)
			e.Violate(prop, "reply-of-previous-incarnation", site, "the reconnected client's stream received as message %d an envelope tagged (call=%d dir=%c): it was addressed to the call its previous connection had in flight under the same id", i, c, d)
			return
		}
	}
	if err, ok := callerErr(nr); ok && err != nil {
		e.Violate(prop, "reply-of-previous-incarnation", site, "the reconnected client's stream ended with %v after an envelope addressed to its previous connection's call reached it", err)
	}
}

func init() {
	Register(&Family{Name: "c05.reconnect", Props: []string{"C05"}, New: func() any { return &C05ReParams{} }, Gen: genC05Re, Exec: execC05Re,
		ShrinkKeys: []string{}, Faulty: true, FaultKinds: []string{"link.readFail", "peer.reattach"}})
}
