package verifsim

import (
	"os"
	"strings"
	"context"
	"errors"
	"fmt"
	"io"
	"math/rand/v2"
	"time"

	"google.golang.org/grpc/codes"
	"google.golang.org/grpc/status"
)

// C07: cancellation / deadline expiry of a streaming call at every position.

type C07Params struct {
	Links    []LinkCfg   `json:"links"`
	Target   *CallSpec   `json:"target"`
	Deadline bool        `json:"deadline"` // deadline expiry instead of explicit cancel
	Pos      int         `json:"pos"`      // cancel once the target has produced this many events
	Others   []*CallSpec `json:"others"`
	WYield   bool        `json:"wyield,omitempty"` // scheduling point at the entry of the client's transport writes
	HoldSender bool      `json:"hold_sender,omitempty"` // MidWrite: that task stays off the processor until everything else has come to rest
	MidClose bool        `json:"mid_close,omitempty"` // MidWrite: only the entry of CloseSend's critical section counts
	MidWrite bool        `json:"mid_write,omitempty"` // the fault lands when, from Pos on, a task of the target call stands at the entry of a transport write (needs WYield)
	Ambig    bool        `json:"ambig,omitempty"`  // the client's transport reports a write cut short by its context as failed although the envelope was delivered
}

func genC07(g *rand.Rand, tier string) any {
	p := &C07Params{}
	p.Links = drawLinks(g, 2)
	p.WYield = g.IntN(2) == 0
	p.Ambig = g.IntN(4) == 0
	for i := range p.Links {
		// properties about "returns once its context is done" presuppose a
		// transport that honours contexts: strict or racy, never deaf
		if g.IntN(2) == 0 {
			p.Links[i].Cap = -1
		}
	}
	classU := p.Links[0].Cap == -1 && p.Links[1].Cap == -1
	t := &CallSpec{ID: 1, Kind: 1 + g.IntN(3), MsgLen: 10}
	n := g.IntN(5)  // client messages
	m := g.IntN(6)  // handler messages
	read := 0       // responses the client reads before it waits for the cancellation
	if m > 0 {
		read = g.IntN(m + 1)
	}
	if m-read > 5 {
		read = m - 5
	}
	switch t.Kind {
	case KSStream:
		n = 1
	case KCStream:
		m = min(m, 1)
		read = min(read, m)
	}
	t.CSendN, t.HSendN = n, m
	// client: sender task (sends, maybe half-close) and receiver task (reads
	// `read` responses, waits for its own context to end, then keeps receiving)
	var a []Op
	if n > 0 {
		a = append(a, Op{K: 's', N: n})
	}
	halfClose := g.IntN(2) == 0 || t.Kind == KSStream
	if halfClose {
		a = append(a, Op{K: 'c'})
	}
	var b []Op
	if read > 0 {
		b = append(b, Op{K: 'r', N: read})
	}
	b = append(b, Op{K: 'w'}, Op{K: 'R'}, Op{K: 'r'}, Op{K: 't'}, Op{K: 'h'}) // Trailer() and Header() are legal on a cancelled stream too
	t.CProg = []Op{{K: 'f', A: a, B: b}, {K: 's'}}
	// handler: consume some, answer, then either wait for its context or return
	var h []Op
	switch g.IntN(3) {
	case 0:
		if n > 0 {
			h = append(h, Op{K: 'r', N: n})
		}
		if m > 0 {
			h = append(h, Op{K: 's', N: m})
		}
	case 1:
		if m > 0 {
			h = append(h, Op{K: 's', N: m})
		}
		h = append(h, Op{K: 'R'})
	default:
		k := 0
		if n > 0 {
			k = g.IntN(n + 1)
		}
		if k > 0 {
			h = append(h, Op{K: 'r', N: k})
		}
		if m > 0 {
			h = append(h, Op{K: 's', N: m})
		}
		if k < n {
			h = append(h, Op{K: 'r', N: n - k})
		}
	}
	if g.IntN(3) != 0 {
		h = append(h, Op{K: 'w'}) // stays until its context is done
	}
	t.HProg = h
	p.Target = t
	p.Deadline = g.IntN(2) == 0
	if p.Deadline {
		t.Timeout = time.Duration(1+g.IntN(3600)) * time.Second
	}
	p.Pos = g.IntN(3*(n+m) + 12)
	aimedAtOpen := false
	if p.Ambig && g.IntN(2) == 0 {
		// the window this transport behaviour matters in is the opening write
		p.Pos = g.IntN(3)
		p.Links[0].Cap = 0 // the open returns only once the server has taken it
		p.Deadline = false
		aimedAtOpen = true
		if g.IntN(2) == 0 {
			// ... deterministically: the cancel lands while the open stands at the
			// transport's entry; the transport lets it out and reports the context's error
			p.WYield, p.MidWrite, p.Links[0].Strict = true, true, false
			p.Pos = 0
		}
	}
	if !p.Deadline && !aimedAtOpen && g.IntN(3) == 0 {
		// aimed: between a sender's last look at its context and its transport write (or,
		// without the scheduling point at the transport's entry, its critical section)
		p.MidWrite = true
		p.MidClose = g.IntN(3) == 0
		p.HoldSender = g.IntN(2) == 0
		p.Links[0].Strict = g.IntN(4) == 0
	}
	if g.IntN(2) == 0 {
		// other calls on the connection (must be unaffected)
		no := 1 + g.IntN(3)
		for i := 0; i < no; i++ {
			c := &CallSpec{ID: 10 + i}
			if g.IntN(2) == 0 {
				c.Kind = KUnary
				c.ReqLen, c.RespLen = g.IntN(40), g.IntN(40)
			} else {
				c.Kind = 1 + g.IntN(3)
				genStream(g, c, Bias{MaxMsgs: 3}, classU)
			}
			p.Others = append(p.Others, c)
		}
	}
	return p
}

func isCtxStatus(err error, deadline bool) bool {
	if err == nil {
		return false
	}
	want := codes.Canceled
	if deadline {
		want = codes.DeadlineExceeded
	}
	if st, ok := status.FromError(err); ok && st.Code() == want {
		return true
	}
	if deadline {
		return errors.Is(err, context.DeadlineExceeded)
	}
	return errors.Is(err, context.Canceled)
}

func execC07(e *Env, pp any) {
	p := pp.(*C07Params)
	if p.Target == nil {
		return
	}
	sim := NewSim(e)
	tr := sim.Add(p.Target)
	for _, c := range p.Others {
		if c != nil && c.ID != p.Target.ID {
			sim.Add(c)
		}
	}
	srv := sim.NewServer()
	net := Build(e, TopoSpec{Kind: TopoDirect, Clients: 1, Links: p.Links}, srv, nil)
	cin := net.CEnds[0].In
	net.CEnds[0].Out.PreWriteYield = p.WYield
	net.CEnds[0].Out.AmbiguousCancel = p.Ambig
	trailerReadEv := 0
	cin.OnRead(func(n int, r *Rpc) {
		if r.GetTrailer() != nil && callOfWireID(net, r.GetId()) == p.Target.ID && trailerReadEv == 0 {
			trailerReadEv = e.NextEv()
		}
	})
	// The server may end the stream on its own (handler returned, server-side
	// deadline, reset for a late body) concurrently with the cancellation. A
	// terminal envelope (trailer or reset) written by the server BEFORE it read
	// the client's reset is such a concurrent completion: the client may report
	// either outcome. One written after the server read the reset is a
	// consequence of the cancellation and exempts nothing.
	trailerWrittenEv := 0
	rstReadEv := 0
	net.CEnds[0].Out.OnRead(func(n int, r *Rpc) {
		if r.GetReset_() != nil && callOfWireID(net, r.GetId()) == p.Target.ID && rstReadEv == 0 {
			rstReadEv = e.NextEv()
		}
	})
	cin.OnWritten(func(n int, r *Rpc) {
		if (r.GetTrailer() != nil || r.GetReset_() != nil) && callOfWireID(net, r.GetId()) == p.Target.ID && trailerWrittenEv == 0 && rstReadEv == 0 {
			trailerWrittenEv = e.NextEv()
		}
	})
	e.Go("caller.target", func() { sim.RunCall(net.CCs[0], tr) })
	for _, c := range p.Others {
		if c == nil || c.ID == p.Target.ID {
			continue
		}
		r := sim.Calls[c.ID]
		e.Go(fmt.Sprintf("caller.c%d", c.ID), func() { sim.RunCall(net.CCs[0], r) })
	}
	// position: number of history events of the target call
	targetEvents := func() int {
		histMu.Lock()
		defer histMu.Unlock()
		n := 0
		for _, ev := range e.Hist {
			if ev.Call == p.Target.ID {
				n++
			}
		}
		return n
	}
	writerName := ""
	atWrite := func() bool {
		for _, v := range e.W.Snapshot() {
			// (the entry of a transport write, or the entry of the send path's critical
			// section in SendMsg / CloseSend: between a sender's look at its context and
			// what it does next)
			atSendPath := v.Site == "link.write" || strings.Contains(v.Site, ":SendMsg:lock#") || strings.Contains(v.Site, ":CloseSend:lock#")
			if p.MidClose {
				atSendPath = strings.Contains(v.Site, ":CloseSend:lock#")
			}
			if !v.Done && v.Started && v.Parked && atSendPath && strings.HasPrefix(v.Name, "caller.target") && !strings.Contains(v.Name, "/") {
				writerName = v.Name
				return true
			}
		}
		return false
	}
	e.NoAutoAdvance = true
	reason := e.Drive(func() bool {
		if targetEvents() < p.Pos {
			return false
		}
		return !p.MidWrite || atWrite()
	})
	if p.MidWrite && reason == CondMet && atWrite() {
		e.Note("cancel.mid-write")
	}
	e.NoAutoAdvance = false
	if reason == Crashed || reason == StepLimit {
		return
	}
	histMu.Lock()
	started, returned := tr.Started, tr.Returned
	finalBefore := tr.CFinalSet
	histMu.Unlock()
	if !started || tr.Cancel == nil {
		e.Note("cancel.before-start")
	}
	if returned || finalBefore {
		e.Note("cancel.after-completion")
	}
	// the fault
	var t int
	if p.Deadline && tr.Ctx != nil {
		dl, _ := tr.Ctx.Deadline()
		t = e.Log("fault.deadline", "", p.Target.ID, "")
		if d := time.Until(dl); d > 0 {
			e.Advance(d)
		}
		e.Note("fault.ctx.deadline")
	} else if tr.Cancel != nil {
		t = e.Log("fault.cancel", "", p.Target.ID, "")
		tr.Cancel()
		e.Note("fault.ctx.cancel")
	} else {
		// the call has not even created its context: nothing to cancel
		e.Settle()
		return
	}
	if !(returned || finalBefore) && started {
		e.Note("fault.inflight")
		e.Note("nontrivial")
	}
	// first quiescent point after the fault, before any timer is flushed: is the
	// stream's read loop stuck writing its reset (known finding F05)?
	rstBlocked := false
	e.NoAutoAdvance = true
	if p.MidWrite && p.HoldSender && writerName != "" {
		// the sender is a slow thread: everything else comes to rest first
		e.Held = writerName
		reason = e.Drive(nil)
		e.Held = ""
		e.Note("cancel.mid-write.sender-held")
		if reason == Crashed || reason == StepLimit {
			e.NoAutoAdvance = false
			return
		}
	}
	reason = e.Drive(nil)
	e.NoAutoAdvance = false
	if reason == Quiescent {
		if os.Getenv("VERIF_DBG_C07") != "" {
			fmt.Println("QUIESCENT after cancel:\n" + e.WaitGraph())
		}
		for _, v := range e.W.Snapshot() {
			// the stream's read loop goroutine parked inside its teardown (between the
			// decision to send a reset and the end of the teardown closure built in
			// NewStream) with nothing runnable: it is blocked writing the reset
			// ("link.write": the harness's own scheduling point at the entry of the
			// transport write; the only thing this goroutine ever writes is the reset)
			inTeardown := v.LastSite == "internal/client/stream.go:readLoop:cancel#0" || strings.HasPrefix(v.LastSite, "internal/client/stream.go:NewStream:") || v.LastSite == "link.write"
			// (waiting for one of the library's own locks inside the teardown is something
			// else: the known finding is a reset that sits in the transport's Write)
			waitsForLock := v.Parked && strings.Contains(v.Site, ":lock#")
			if !v.Done && v.Started && v.Goat && inTeardown && !waitsForLock && containsAny(v.Name, "caller.target/internal/client/stream.go:NewStream:go#") {
				rstBlocked = true
				e.Note("rst.write.blocked")
			}
		}
	}
	reason = e.Settle()
	if reason == Crashed || reason == StepLimit {
		return
	}
	const prop = "C07"
	site := kindNames[p.Target.Kind]
	rsite := site
	if rstBlocked {
		rsite = "rst-write-blocked-by-pending-response"
	}
	completedInFlight := trailerReadEv != 0 && trailerReadEv < t
	if returned || finalBefore {
		return // precondition "before the call has completed" does not hold
	}
	// events of the target after t
	histMu.Lock()
	hist := append([]Ev(nil), e.Hist...)
	histMu.Unlock()
	if tr.NewStreamErr != nil {
		// the cancellation landed before the stream was open: the open itself must fail with the context's error
		if !isCtxStatus(tr.NewStreamErr, p.Deadline) {
			e.Violate(prop, "open-wrong-error", site, "NewStream on a cancelled context failed with %v, want the context's error", tr.NewStreamErr)
		}
		e.Note("cancel.during-open")
		// The failed open ends the caller's side. If the open envelope nevertheless
		// reached the wire the server has a handler for it, and the rest of the
		// property still binds: a reset goes out and the handler is not left running.
		c07ServerSide(e, p, net, tr, rsite, false, false, trailerReadEv)
		return
	}
	if !tr.Returned {
		e.Violate(prop, "hang", site, "the cancelled call's client program has not finished after settle (a receive or send never returned)\n%s", e.WaitGraph())
		return
	}
	// (1) receives pending at t or invoked later
	var lastCall int
	for _, ev := range hist {
		if ev.Call != p.Target.ID {
			continue
		}
		switch ev.Kind {
		case "c.recv.call":
			lastCall = ev.N
		case "c.recv":
			if ev.N < t {
				continue
			}
			invokedAfter := lastCall > t
			if ev.Info == "" {
				// a message was returned
				if invokedAfter {
					e.Violate(prop, "message-after-cancel", site, "a RecvMsg invoked after the cancellation (event %d > %d) returned a message", lastCall, t)
				} else if p.Target.Kind == KCStream && !completedInFlight && !(trailerWrittenEv != 0 && trailerWrittenEv < ev.N) {
					// on a client-streaming call the one RecvMsg is the call's result (the
					// generated CloseAndRecv): it hands the reply over with a nil error only
					// for a call that completed, and this one was cancelled before the server
					// had finished it
					e.Violate(prop, "success-after-cancel", site, "the RecvMsg of a client-streaming call, pending when the call was cancelled (event %d) and with no final status from the server yet, returned the reply with a nil error: CloseAndRecv reports success for a cancelled call", t)
				}
				continue
			}
			if completedInFlight {
				continue
			}
			if trailerWrittenEv != 0 && trailerWrittenEv < ev.N {
				// the server had completed the stream before this receive
				// returned: completion and cancellation are concurrent, and the
				// receive may report either (the true final status is checked by C02/C03)
				e.Note("cancel.concurrent-completion")
				continue
			}
			if !isCtxStatusText(ev.Info, p.Deadline) {
				e.Violate(prop, "recv-wrong-error", site, "RecvMsg pending at / invoked after the cancellation returned %q, want %s", ev.Info, wantName(p.Deadline))
			}
		case "c.send":
			if ev.N > t && p.Links[0].Strict {
				// invoked after t? the send op logs only on return; use the Pt before it
			}
		}
	}
	concurrent := trailerWrittenEv != 0
	if tr.CFinalSet && !completedInFlight && !concurrent && !isCtxStatus(tr.CFinal, p.Deadline) && tr.CFinal != io.EOF {
		// covered above by text; keep structured check for the terminal error
		if st, ok := status.FromError(tr.CFinal); !ok || (st.Code() != codes.Canceled && st.Code() != codes.DeadlineExceeded) {
			e.Violate(prop, "recv-wrong-error", site, "terminal RecvMsg error is %v, want %s", tr.CFinal, wantName(p.Deadline))
		}
	}
	if tr.CFinalSet && tr.CFinal == io.EOF && !completedInFlight && !concurrent {
		e.Violate(prop, "eof-after-cancel", site, "RecvMsg returned io.EOF for a cancelled stream whose trailer had not been read before the cancellation")
	}
	// (2) the send issued after the join (certainly invoked after t)
	if n := len(tr.CSendErr); (n == 0 || tr.CSendErr[n-1] == nil) && p.Target.Kind == KSStream && (completedInFlight || concurrent) {
		// the peer had finished the call when it was cancelled (the premise of C07 does not
		// hold); on a single-request call SendMsg then reports nothing and leaves the
		// call's outcome to RecvMsg (repair F69, as grpc-go)
		e.Note("cancel.send-on-peer-finished-sstream")
	} else if n == 0 || tr.CSendErr[n-1] == nil {
		e.Violate(prop, "send-after-cancel-ok", site, "a SendMsg invoked after the cancellation succeeded")
	} else if last := tr.CSendErr[n-1]; !completedInFlight && !concurrent && !isCtxStatus(last, p.Deadline) && last != io.EOF {
		e.Violate(prop, "send-wrong-error", site, "SendMsg after the cancellation failed with %v, want the context's error", last)
	}
	c07ServerSide(e, p, net, tr, rsite, completedInFlight, concurrent, trailerReadEv)
	// (5) other calls unaffected
	run := &MixRun{E: e, Sim: sim, Net: net, P: &MixParams{}}
	saved := sim.Order
	var others []int
	for _, id := range saved {
		if id != p.Target.ID {
			others = append(others, id)
		}
	}
	sim.Order = others
	nv := len(e.Violations)
	checkUnaryPairing(e, sim, prop)
	checkStreams(run)
	sim.Order = saved
	// re-tag what the generic oracles found as C07 "other call disturbed"
	histMu.Lock()
	for i := nv; i < len(e.Violations); i++ {
		if e.Violations[i].Property == "C02" || e.Violations[i].Property == "C01" {
			e.Violations[i].Property = prop
			e.Violations[i].Class = "other-call-disturbed:" + e.Violations[i].Class
		}
	}
	histMu.Unlock()
	checkWireLinks(e, sim, []*Link{net.CEnds[0].Out}, []*Link{net.CEnds[0].In}, false)
}

// c07ServerSide: parts (3) and (4) of the property - a reset for the opened
// stream is on the wire and the handler is neither running nor holding a live context.
func c07ServerSide(e *Env, p *C07Params, net *Net, tr *CallRec, rsite string, completedInFlight, concurrent bool, trailerReadEv int) {
	const prop = "C07"
	// (3) reset on the wire
	opened, reset := false, false
	cout := net.CEnds[0].Out
	cout.mu.Lock()
	for _, tp := range cout.Tap {
		if callOfEnvelope(tp.Rpc) == p.Target.ID && !tp.Withdrawn {
			opened = true // at least one envelope of the call really reached the server's side of the link
		}
	}
	var wid uint64
	for _, tp := range cout.Tap {
		if callOfEnvelope(tp.Rpc) == p.Target.ID {
			wid = tp.Rpc.GetId()
			break
		}
	}
	for _, tp := range cout.Tap {
		if opened && tp.Rpc.GetId() == wid && tp.Rpc.GetReset_() != nil && !tp.Withdrawn {
			reset = true
		}
	}
	cout.mu.Unlock()
	if opened && !completedInFlight && !concurrent && trailerReadEv == 0 && !reset {
		e.Violate(prop, "no-reset", rsite, "the stream was opened and no trailer was received, but no reset for id %d was written during settle", wid)
	}
	if reset {
		e.Note("reset.sent")
	}
	// (4) handler context done
	if tr.HInvoked > 0 && tr.HCtx != nil && tr.HCtx.Err() == nil {
		e.Violate(prop, "handler-ctx-live", rsite, "the handler's context is still live after settle although its caller has gone")
	}
	if opened && tr.HInvoked > 0 && !tr.HReturned {
		e.Violate(prop, "handler-running", rsite, "the handler is still running after settle although its caller has gone\n%s", e.WaitGraph())
		if rsite != "rst-write-blocked-by-pending-response" && tr.Returned {
			// C14: the call has ended for its caller; the server still holds a stream,
			// a handler goroutine and a context for it (known finding F05 has its own site)
			e.Violate("C14", "server-registration-leak", "cancelled-stream."+rsite, "the caller's side of the cancelled call is released, the server still holds its stream and handler for the life of the connection")
		}
	}
}

func wantName(deadline bool) string {
	if deadline {
		return "DeadlineExceeded"
	}
	return "Canceled"
}

func isCtxStatusText(s string, deadline bool) bool {
	if deadline {
		return containsAny(s, "DeadlineExceeded", "deadline exceeded")
	}
	return containsAny(s, "Canceled", "context canceled")
}

func containsAny(s string, subs ...string) bool {
	for _, x := range subs {
		if len(x) > 0 && len(s) >= len(x) {
			for i := 0; i+len(x) <= len(s); i++ {
				if s[i:i+len(x)] == x {
					return true
				}
			}
		}
	}
	return false
}

// callOfWireID maps a wire id on the (single) client connection to the
// harness call id, using the open/request envelopes on the client's out tap.
func callOfWireID(n *Net, id uint64) int {
	out := n.CEnds[0].Out
	out.mu.Lock()
	defer out.mu.Unlock()
	for _, tp := range out.Tap {
		if tp.Rpc.GetId() == id {
			if c := callOfEnvelope(tp.Rpc); c != 0 {
				return c
			}
		}
	}
	return 0
}

func init() {
	Register(&Family{Name: "c07.cancel", ShrinkKeys: []string{"others", "pos"}, Props: []string{"C07", "C06", "C14"}, New: func() any { return &C07Params{} }, Gen: genC07, Exec: execC07,
		Faulty: true, FaultKinds: []string{"ctx.cancel", "ctx.deadline"}})
}
