package verifsim

import (
	goat "github.com/avos-io/goat"
	"bytes"
	"context"
	"fmt"
	"io"
	"math/rand/v2"

	"github.com/avos-io/goat/gen/goatorepo"
	"google.golang.org/grpc"
	"google.golang.org/protobuf/proto"
	"google.golang.org/protobuf/types/known/wrapperspb"
)

// C12: a hostile raw client peer against a real server.

// Request shapes.
const (
	QNoHeader = iota
	QEmptyMethod
	QNoSlash
	QUnknownService
	QUnknownMethod
	QWrongDest
	QUnary
	QUnaryBadMD
	QUnaryNilBody
	QOpen
	QOpenBadMD
	QOpenWithBody
	QBody
	QTrailerOK
	QTrailerErr
	QReset
	QResetOther
	QBodyTrailer
	QStatusOnly
	QUnaryWithTrailer
	QEmpty
	QOpenSStream
	QOpenCStream
	QHugeID
	QUnaryBadTimeout
	QTrailerNoStatus
	QUnaryReset       // reset (what goat's client sends to cancel a stream) naming a unary method
	QUnaryTrailerOnly // status + trailer, no body, naming a unary method
	QUnaryNoDest      // a well-formed unary request whose destination is empty
	QOpenNoDest       // a stream open whose destination is empty
	QUnaryExtraSegment // a unary request whose method is a registered one with "/more" appended: no such service
	QOpenExtraSegment  // a stream open whose method is a registered one with a trailing slash / further segments
	numQShapes
)

var qShapeNames = []string{"no-header", "empty-method", "no-slash", "unknown-service", "unknown-method", "wrong-destination", "unary",
	"unary-bad-md", "unary-nil-body", "open", "open-bad-md", "open-with-body", "body", "trailer-ok", "trailer-err", "reset", "reset-other",
	"body+trailer", "status-only", "unary+trailer", "empty", "open-sstream", "open-cstream", "huge-id", "unary-bad-timeout", "trailer-no-status", "unary-reset", "unary-trailer-only", "unary-no-destination", "open-no-destination", "unary-extra-segment", "open-extra-segment"}

type RawReq struct {
	Shape int `json:"shape"`
	ID    int `json:"id"` // 1 or 2
}

type C12Params struct {
	Links []LinkCfg `json:"links"`
	Seq   []RawReq  `json:"seq"`
	Index int64     `json:"index"` // >=0: the sequence was derived from this mixed-radix index
	Enum  bool      `json:"enum,omitempty"` // the sequence is the Index-th of the bounded enumeration (by run index)
}

func bytesBody(b []byte) *goatorepo.Body {
	d, _ := proto.Marshal(wrapperspb.Bytes(b))
	return &goatorepo.Body{Data: d}
}

func buildReq(q RawReq, n int) *Rpc {
	id := uint64(q.ID)
	hdr := func(method string) *goatorepo.RequestHeader {
		return &goatorepo.RequestHeader{Method: method, Source: "raw", Destination: ServerID}
	}
	// (metadata keys are case-insensitive: a binary key is one in any spelling)
	badMD := []*goatorepo.KeyValue{{Key: []string{"bad-bin", "Bad-bin", "bad-Bin", "BAD-BIN"}[(q.ID+n)%4], Value: "!!!not base64!!!"}}
	payload := []byte(fmt.Sprintf("hostile-%d-%d", q.ID, n))
	r := &Rpc{Id: id}
	switch q.Shape {
	case QNoHeader:
		r.Body = bytesBody(payload)
	case QEmptyMethod:
		r.Header, r.Body = hdr(""), bytesBody(payload)
	case QNoSlash:
		r.Header, r.Body = hdr("nomethod"), bytesBody(payload)
	case QUnknownService:
		r.Header, r.Body = hdr("/no.Such/Method"), bytesBody(payload)
	case QUnaryExtraSegment:
		r.Header, r.Body = hdr(methodNames[KUnary]+[]string{"/extra", "/", "/x/y"}[(q.ID+n)%3]), bytesBody(payload)
	case QOpenExtraSegment:
		r.Header = hdr(methodNames[KBidi] + []string{"/extra", "/", "/x/y"}[(q.ID+n)%3])
	case QUnknownMethod:
		r.Header, r.Body = hdr("/verif.Sim/Nope"), bytesBody(payload)
	case QWrongDest:
		r.Header, r.Body = hdr(methodNames[KUnary]), bytesBody(payload)
		r.Header.Destination = "someone-else"
	case QUnary:
		r.Header, r.Body = hdr(methodNames[KUnary]), bytesBody(payload)
	case QUnaryBadMD:
		r.Header, r.Body = hdr(methodNames[KUnary]), bytesBody(payload)
		r.Header.Headers = badMD
	case QUnaryNilBody:
		r.Header = hdr(methodNames[KUnary])
	case QOpen:
		r.Header = hdr(methodNames[KBidi])
	case QOpenBadMD:
		r.Header = hdr(methodNames[KBidi])
		r.Header.Headers = badMD
	case QOpenWithBody:
		r.Header, r.Body = hdr(methodNames[KBidi]), bytesBody(payload)
	case QBody:
		r.Header, r.Body = hdr(methodNames[KBidi]), bytesBody(payload)
	case QTrailerOK:
		r.Header, r.Status, r.Trailer = hdr(methodNames[KBidi]), &goatorepo.ResponseStatus{Code: 0, Message: "OK"}, &goatorepo.Trailer{}
	case QTrailerNoStatus:
		// README: "status: usually only set on error" - a half-close need not carry one
		r.Header, r.Trailer = hdr(methodNames[KBidi]), &goatorepo.Trailer{}
	case QTrailerErr:
		r.Header, r.Status, r.Trailer = hdr(methodNames[KBidi]), &goatorepo.ResponseStatus{Code: 13, Message: "client gave up"}, &goatorepo.Trailer{}
	case QReset:
		r.Header, r.Reset_ = hdr(methodNames[KBidi]), &goatorepo.Reset{Type: "RST_STREAM"}
	case QResetOther:
		r.Header, r.Reset_ = hdr(methodNames[KBidi]), &goatorepo.Reset{Type: "SOMETHING_ELSE"}
	case QBodyTrailer:
		r.Header, r.Body, r.Trailer, r.Status = hdr(methodNames[KBidi]), bytesBody(payload), &goatorepo.Trailer{}, &goatorepo.ResponseStatus{}
	case QStatusOnly:
		r.Header, r.Status = hdr(methodNames[KBidi]), &goatorepo.ResponseStatus{Code: 2, Message: "status only"}
	case QUnaryWithTrailer:
		r.Header, r.Body, r.Trailer = hdr(methodNames[KUnary]), bytesBody(payload), &goatorepo.Trailer{}
	case QEmpty:
	case QOpenSStream:
		r.Header = hdr(methodNames[KSStream])
	case QOpenCStream:
		r.Header = hdr(methodNames[KCStream])
	case QHugeID:
		r.Id = ^uint64(0) - uint64(q.ID)
		r.Header, r.Body = hdr(methodNames[KUnary]), bytesBody(payload)
	case QUnaryNoDest:
		r.Header, r.Body = hdr(methodNames[KUnary]), bytesBody(payload)
		r.Header.Destination = ""
	case QOpenNoDest:
		r.Header = hdr(methodNames[KBidi])
		r.Header.Destination = ""
	case QUnaryReset:
		r.Header, r.Reset_, r.Trailer = hdr(methodNames[KUnary]), &goatorepo.Reset{Type: "RST_STREAM"}, &goatorepo.Trailer{}
	case QUnaryTrailerOnly:
		r.Header, r.Status, r.Trailer = hdr(methodNames[KUnary]), &goatorepo.ResponseStatus{}, &goatorepo.Trailer{}
	case QUnaryBadTimeout:
		r.Header, r.Body = hdr(methodNames[KUnary]), bytesBody(payload)
		r.Header.Headers = []*goatorepo.KeyValue{{Key: "grpc-timeout", Value: "-5S"}, {Key: "GRPC-TIMEOUT", Value: "xyz"}}
	}
	return r
}

func genC12(g *rand.Rand, tier string) any {
	p := &C12Params{Links: drawLinks(g, 2), Index: -1}
	p.Links[0].Cap, p.Links[1].Cap = -1, -1
	nsym := int64(numQShapes * 2)
	switch g.IntN(4) {
	case 0, 1, 2:
		// bounded enumeration: index over all sequences of length <= 4
		n := 1 + g.IntN(4)
		var idx int64
		for i := 0; i < n; i++ {
			s := g.Int64N(nsym)
			idx = idx*nsym + s
			p.Seq = append(p.Seq, RawReq{Shape: int(s) / 2, ID: 1 + int(s)%2})
		}
		p.Index = idx
	default:
		n := 5 + g.IntN(36)
		for i := 0; i < n; i++ {
			// bias towards conversations that make sense
			sh := g.IntN(numQShapes)
			if g.IntN(2) == 0 {
				sh = []int{QOpen, QBody, QBody, QTrailerOK, QUnary, QReset, QTrailerNoStatus}[g.IntN(7)]
			}
			p.Seq = append(p.Seq, RawReq{Shape: sh, ID: 1 + g.IntN(2)})
		}
	}
	return p
}

// classification of a request by an independent reading of the protocol
func validUnary(q RawReq) bool {
	switch q.Shape {
	case QUnary, QUnaryNilBody, QUnaryWithTrailer, QHugeID, QUnaryBadTimeout:
		return true
	}
	return false
}

// opensStream: per the README a stream starts with an envelope for a new id
// of a streaming method that has no body and no trailer (a status, or a reset
// of an unknown type, does not change that).
func opensStream(q RawReq) bool {
	switch q.Shape {
	case QOpen, QOpenSStream, QOpenCStream, QStatusOnly, QResetOther:
		return true
	}
	return false
}

func execC12(e *Env, pp any) {
	p := pp.(*C12Params)
	sim := NewSim(e)
	unaryRuns, streamRuns := 0, 0
	var unaryReqs [][]byte
	sim.DefaultUnary = func(ctx context.Context, req []byte) ([]byte, error) {
		histMu.Lock()
		unaryRuns++
		unaryReqs = append(unaryReqs, append([]byte(nil), req...))
		histMu.Unlock()
		e.Log("h.unary", "", 0, "")
		e.Pt("h.reply")
		return append([]byte("echo:"), req...), nil
	}
	sim.DefaultStream = func(kind int, ss grpc.ServerStream) error {
		histMu.Lock()
		streamRuns++
		histMu.Unlock()
		e.Log("h.stream", "", kind, "")
		n := 0
		for {
			e.Pt("h.recv")
			m := new(wrapperspb.BytesValue)
			if err := ss.RecvMsg(m); err != nil {
				if err == io.EOF {
					e.Pt("h.send")
					if err := ss.SendMsg(wrapperspb.Bytes([]byte(fmt.Sprintf("count=%d", n)))); err != nil {
						return err
					}
					return nil
				}
				return err
			}
			n++
		}
	}
	srv := sim.NewServer()
	lc := func(i int) LinkCfg {
		if i < len(p.Links) {
			return p.Links[i]
		}
		return LinkCfg{Cap: -1}
	}
	a, b := e.NewConn("c0", lc(0), lc(1))
	net := &Net{E: e, Srv: srv}
	sr := net.startServe("serve0", b)
	// raw peer: reader collects responses, writer emits the sequence then the probes
	rctx, rcancel := context.WithCancel(context.Background())
	e.OnTeardown(rcancel)
	var got []*Rpc
	e.Go("raw.reader", func() {
		for {
			r, err := a.Read(rctx)
			if err != nil {
				return
			}
			histMu.Lock()
			got = append(got, r)
			histMu.Unlock()
		}
	})
	const probeU, probeS, probeJ = 1000, 1001, 1002
	probePayload := []byte("probe-unary-payload")
	written := 0
	e.Go("raw.writer", func() {
		for i, q := range p.Seq {
			e.Pt("raw.send")
			e.Note("shape." + qShapeNames[q.Shape%numQShapes])
			e.Log("raw."+qShapeNames[q.Shape%numQShapes], "", q.ID, "")
			if a.Write(rctx, buildReq(RawReq{Shape: q.Shape % numQShapes, ID: q.ID}, i)) != nil {
				return
			}
			written++
		}
		// valid probes on fresh ids
		e.Pt("raw.probe")
		h := &goatorepo.RequestHeader{Method: methodNames[KUnary], Source: "raw", Destination: ServerID}
		a.Write(rctx, &Rpc{Id: probeU, Header: h, Body: bytesBody(probePayload)})
		hs := &goatorepo.RequestHeader{Method: methodNames[KCStream], Source: "raw", Destination: ServerID}
		e.Pt("raw.probe")
		a.Write(rctx, &Rpc{Id: probeS, Header: hs})
		e.Pt("raw.probe")
		a.Write(rctx, &Rpc{Id: probeS, Header: hs, Body: bytesBody([]byte("one"))})
		e.Pt("raw.probe")
		a.Write(rctx, &Rpc{Id: probeS, Header: hs, Body: bytesBody([]byte("two"))})
		e.Pt("raw.probe")
		a.Write(rctx, &Rpc{Id: probeS, Header: hs, Status: &goatorepo.ResponseStatus{}, Trailer: &goatorepo.Trailer{}})
		// server-stream probe whose single request rides with the half-close, the shape
		// README.md gives ("Client -> Server: id, header, body?, trailer")
		hj := &goatorepo.RequestHeader{Method: methodNames[KSStream], Source: "raw", Destination: ServerID}
		e.Pt("raw.probe")
		a.Write(rctx, &Rpc{Id: probeJ, Header: hj})
		e.Pt("raw.probe")
		a.Write(rctx, &Rpc{Id: probeJ, Header: hj, Body: bytesBody([]byte("only")), Trailer: &goatorepo.Trailer{}})
		// finally the peer resets whatever the hostile sequence may have left open
		// (a reset for an id the server does not know is ignored)
		for _, id := range []uint64{1, 2, ^uint64(0) - 1, ^uint64(0) - 2} {
			e.Pt("raw.probe")
			a.Write(rctx, &Rpc{Id: id, Header: &goatorepo.RequestHeader{Method: methodNames[KBidi], Source: "raw", Destination: ServerID}, Reset_: &goatorepo.Reset{Type: "RST_STREAM"}})
		}
	})
	// contexts registered under the connection's contexts once it is set up and idle
	e.NoAutoAdvance = true
	baseCtx := -1
	if rr := e.Drive(func() bool { return len(e.W.TrackedObjects("server.handler")) > 0 }); rr == CondMet {
		baseCtx = c12ServerCtx(e, sr)
	}
	e.NoAutoAdvance = false
	reason := e.Settle()
	e.Note("nontrivial")
	if p.Enum && len(p.Seq) <= 3 {
		e.Note(fmt.Sprintf("enum.len%d", len(p.Seq)))
	}
	if reason == Crashed || reason == StepLimit {
		return
	}
	const prop = "C12"
	// second phase, everything quiet: the peer uses id 1 again for a new client-streaming
	// call (every earlier stream on that id was finished or reset and has gone): a valid
	// later request like any other
	nBefore := 0
	histMu.Lock()
	nBefore = len(got)
	streamsBefore := streamRuns
	histMu.Unlock()
	e.Go("raw.reuse", func() {
		hs := &goatorepo.RequestHeader{Method: methodNames[KCStream], Source: "raw", Destination: ServerID}
		a.Write(rctx, &Rpc{Id: 1, Header: hs})
		e.Pt("raw.probe")
		a.Write(rctx, &Rpc{Id: 1, Header: hs, Body: bytesBody([]byte("again"))})
		e.Pt("raw.probe")
		a.Write(rctx, &Rpc{Id: 1, Header: hs, Status: &goatorepo.ResponseStatus{}, Trailer: &goatorepo.Trailer{}})
	})
	if rr := e.Settle(); rr == Crashed || rr == StepLimit {
		return
	}
	histMu.Lock()
	later := append([]*Rpc(nil), got[nBefore:]...)
	reuseRan := streamRuns - streamsBefore
	got = got[:nBefore]
	streamRuns = streamsBefore
	histMu.Unlock()
	if !sr.Returned {
		var rb, rt *Rpc
		for _, r := range later {
			if r.GetId() == 1 && r.GetTrailer() != nil && r.GetReset_() == nil {
				rt = r
			} else if r.GetId() == 1 && r.GetBody() != nil {
				rb = r
			}
		}
		if reuseRan != 1 || rt == nil || rt.GetStatus().GetCode() != 0 || rb == nil || !bytes.Equal(rb.GetBody().GetData(), bytesBody([]byte("count=1")).Data) {
			e.Violate(prop, "probe-wrong", "stream.reused-id", "a new client-streaming call on id 1, sent once every earlier stream on that id had been finished or reset and the connection was quiet, was not served: handler runs %d, reply %q, trailer %v (sequence %v)", reuseRan, rb.GetBody().GetData(), rt.GetStatus(), seqString(p.Seq))
		} else {
			e.Note("c12.reused-id-served")
		}
	}
	histMu.Lock()
	resp := append([]*Rpc(nil), got...)
	ur, strs := unaryRuns, streamRuns
	histMu.Unlock()
	// (a) the probes completed correctly
	var pu, psBody, psTrailer, pjBody, pjTrailer *Rpc
	for _, r := range resp {
		switch r.GetId() {
		case probeJ:
			if r.GetTrailer() != nil {
				pjTrailer = r
			} else if r.GetBody() != nil {
				pjBody = r
			}
		case probeU:
			pu = r
		case probeS:
			if r.GetTrailer() != nil {
				psTrailer = r
			} else if r.GetBody() != nil {
				psBody = r
			}
		}
	}
	want := bytesBody(append([]byte("echo:"), probePayload...)).Data
	if pu == nil {
		e.Violate(prop, "probe-unanswered", "unary", "the valid unary probe after the hostile sequence got no response (Serve returned: %v)\n%s", sr.Returned, e.WaitGraph())
	} else if pu.GetStatus().GetCode() != 0 || !bytes.Equal(pu.GetBody().GetData(), want) {
		e.Violate(prop, "probe-wrong", "unary", "the unary probe got status %v / %d body bytes", pu.GetStatus(), len(pu.GetBody().GetData()))
	}
	if psTrailer == nil {
		e.Violate(prop, "probe-unanswered", "stream", "the valid client-stream probe after the hostile sequence was not completed (Serve returned: %v)\n%s", sr.Returned, e.WaitGraph())
	} else if psTrailer.GetStatus().GetCode() != 0 || psBody == nil || !bytes.Equal(psBody.GetBody().GetData(), bytesBody([]byte("count=2")).Data) {
		e.Violate(prop, "probe-wrong", "stream", "the stream probe ended with status %v, reply %q", psTrailer.GetStatus(), psBody.GetBody().GetData())
	}
	if pjTrailer == nil {
		e.Violate(prop, "probe-unanswered", "sstream.body-with-trailer", "the valid server-stream probe (request and half-close in one envelope) was not completed (Serve returned: %v)\n%s", sr.Returned, e.WaitGraph())
	} else if pjTrailer.GetStatus().GetCode() != 0 || pjBody == nil || !bytes.Equal(pjBody.GetBody().GetData(), bytesBody([]byte("count=1")).Data) {
		e.Violate(prop, "probe-wrong", "sstream.body-with-trailer", "the server-stream probe sent its one request in the envelope that carries the trailer (README: \"id, header, body?, trailer\"); it ended with status %v, reply %q (want count=1): the handler never saw the request", pjTrailer.GetStatus(), pjBody.GetBody().GetData())
	}
	if sr.Returned {
		e.Violate(prop, "serve-ended", "serve", "Serve returned (%v) although the transport is healthy: the server stopped serving", sr.Err)
	}
	// (b) handlers ran only for well-formed requests addressed to the server:
	// every valid unary request ran the unary handler exactly once (plus the probe)
	nValidUnary := 1
	for _, q := range p.Seq {
		if validUnary(RawReq{Shape: q.Shape % numQShapes}) {
			nValidUnary++
		}
	}
	if ur != nValidUnary {
		e.Violate(prop, "unary-handler-count", "unary", "the unary handler ran %d times for %d well-formed unary requests (sequence %v)", ur, nValidUnary, seqString(p.Seq))
	}
	nOpen := 2
	firstOpen := map[int]bool{}
	opened := map[int]bool{}
	for _, q := range p.Seq {
		s := RawReq{Shape: q.Shape % numQShapes, ID: q.ID}
		if opensStream(s) {
			nOpen++
			if !opened[q.ID] {
				firstOpen[q.ID] = true
			}
			opened[q.ID] = true
		}
	}
	if strs > nOpen {
		e.Violate(prop, "stream-handler-count", "stream", "stream handlers ran %d times but only %d well-formed opens were sent (sequence %v)", strs, nOpen, seqString(p.Seq))
	}
	if strs < 2+len(firstOpen) {
		e.Violate(prop, "stream-handler-missing", "stream", "stream handlers ran %d times; the two probes and %d first opens each require one (sequence %v)", strs, len(firstOpen), seqString(p.Seq))
	}
	// (c) a body for an id with no open stream is answered by a reset for that id:
	// decidable for ids that were never opened before the body
	openedSoFar := map[int]bool{}
	needReset := map[uint64]bool{}
	for _, q := range p.Seq {
		s := RawReq{Shape: q.Shape % numQShapes, ID: q.ID}
		if opensStream(s) {
			openedSoFar[q.ID] = true
		}
		switch s.Shape {
		case QBody, QOpenWithBody, QBodyTrailer:
			if !openedSoFar[q.ID] {
				needReset[uint64(q.ID)] = true
			}
		}
	}
	// ... and every one of them: for an id the sequence never opens at all, as many
	// resets as bodies
	neverOpened := map[int]bool{1: true, 2: true}
	bodiesFor := map[uint64]int{}
	for _, q := range p.Seq {
		if opensStream(RawReq{Shape: q.Shape % numQShapes, ID: q.ID}) {
			neverOpened[q.ID] = false
		}
	}
	for _, q := range p.Seq {
		switch q.Shape % numQShapes {
		case QBody, QOpenWithBody, QBodyTrailer:
			if neverOpened[q.ID] {
				bodiesFor[uint64(q.ID)]++
			}
		}
	}
	for id, nb := range bodiesFor {
		nr := 0
		for _, r := range resp {
			if r.GetId() == id && r.GetReset_() != nil {
				nr++
			}
		}
		if nr < nb {
			e.Violate(prop, "no-reset-for-unknown-stream", "stream.every-body", "%d bodies were sent for id %d, which no envelope of the sequence opens; %d resets came back (sequence %v)", nb, id, nr, seqString(p.Seq))
		}
	}
	for id := range needReset {
		found := false
		for _, r := range resp {
			if r.GetId() == id && r.GetReset_() != nil {
				found = true
			}
		}
		if !found {
			e.Violate(prop, "no-reset-for-unknown-stream", "stream", "a body for id %d, which had no open stream, was not answered by a reset (sequence %v)", id, seqString(p.Seq))
		} else {
			e.Note("reset.for.unknown")
		}
	}
	// every stream was finished or reset by now: nothing stays registered, and no
	// context created for an envelope of this peer is still hooked to the connection
	// (e.g. the context of an open that was refused)
	if !sr.Returned {
		for _, h := range e.W.TrackedObjects("server.handler") {
			if n := goat.VerifServerStreams(h); n > 0 {
				e.Violate(prop, "stream-left-registered", "server.handler", "%d stream(s) still registered after the peer finished or reset every id it used (sequence %v)", n, seqString(p.Seq))
			}
		}
		if now := c12ServerCtx(e, sr); baseCtx >= 0 && now > baseCtx {
			e.Violate("C14", "context-leak", "server.refused-open", "%d contexts are registered under the connection's contexts after the peer finished or reset every id it used, %d when the connection was idle at the start (sequence %v)", now, baseCtx, seqString(p.Seq))
		} else if baseCtx >= 0 {
			e.Note("c12.ctx-children-back-to-baseline")
		}
	}
	// every response is addressed back to the raw peer and echoes a received id
	for _, r := range resp {
		if r.GetHeader() != nil && r.GetHeader().GetDestination() != "raw" {
			e.Violate(prop, "response-misaddressed", "server", "response for id %d addressed to %q", r.GetId(), r.GetHeader().GetDestination())
		}
	}
	// last phase (C10): the connection ends - its read side fails, or the server is
	// stopped - and Serve returns, whatever this peer has done on it before
	if !sr.Returned {
		how := "readfail"
		if len(p.Seq)%2 == 1 {
			how = "stop"
			e.Call("server.stop", srv.Stop)
			e.Note("fault.server.stop")
		} else {
			b.In.FailRead(InjectedErr(len(p.Seq)))
			e.Note("fault.link.readFail")
		}
		if rr := e.Settle(); rr == Crashed || rr == StepLimit {
			return
		}
		if !sr.Returned {
			e.Violate("C10", "serve-not-returned", "after-hostile-peer."+how, "Serve has not returned after the %s that ended a connection on which a peer had sent the sequence %v (and re-used id 1)\n%s", how, seqString(p.Seq), e.WaitGraph())
		}
	}
}

func seqString(s []RawReq) string {
	var b bytes.Buffer
	for i, q := range s {
		if i > 0 {
			b.WriteString(" ")
		}
		if i >= 12 {
			fmt.Fprintf(&b, "...(+%d)", len(s)-i)
			break
		}
		fmt.Fprintf(&b, "%s#%d", qShapeNames[q.Shape%numQShapes], q.ID)
	}
	return b.String()
}

// enumC12: the idx-th sequence in the enumeration of all sequences of length
// 1, then 2, then 3 over the 50 symbols (shape x id).
func enumSeq(idx uint64, nsym uint64, maxLen int) ([]uint64, bool) {
	pow := nsym
	for l := 1; l <= maxLen; l++ {
		if idx < pow {
			out := make([]uint64, l)
			for i := l - 1; i >= 0; i-- {
				out[i] = idx % nsym
				idx /= nsym
			}
			return out, true
		}
		idx -= pow
		pow *= nsym
	}
	return nil, false
}

func enumLimit(tier string) int {
	if tier == "thorough" {
		return 3
	}
	return 2
}

func genC12At(idx uint64, g *rand.Rand, tier string) any {
	if syms, ok := enumSeq(idx, uint64(numQShapes*2), enumLimit(tier)); ok {
		p := &C12Params{Links: []LinkCfg{{Cap: -1, Serialise: idx%2 == 0}, {Cap: -1, Serialise: idx%4 < 2}}, Index: int64(idx), Enum: true}
		for _, s := range syms {
			p.Seq = append(p.Seq, RawReq{Shape: int(s) / 2, ID: 1 + int(s)%2})
		}
		return p
	}
	return genC12(g, tier)
}

func init() {
	Register(&Family{Name: "c12.hostile-client", ShrinkKeys: []string{"seq"}, Props: []string{"C12", "C14", "C10"}, New: func() any { return &C12Params{} }, Gen: genC12, GenAt: genC12At, Exec: execC12,
		Faulty: true, FaultKinds: []string{"peer.malformed"}})
}

// c12ServerCtx: contexts registered under the context handed to Serve and under the
// connection contexts of the server handlers (see ctxDescendants).
func c12ServerCtx(e *Env, sr *ServeRec) int {
	n := 0
	if d := ctxDescendants(sr.Ctx); d >= 0 {
		n += d
	}
	for _, h := range e.W.TrackedObjects("server.handler") {
		if d := ctxDescendants(goat.VerifServerCtx(h)); d >= 0 {
			n += d
		}
	}
	return n
}
