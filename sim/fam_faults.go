package verifsim

import (
	"google.golang.org/grpc"
	"google.golang.org/protobuf/types/known/wrapperspb"
	"github.com/avos-io/goat/gen/goatorepo"
	"bytes"
	"context"
	"errors"
	"fmt"
	"io"
	"math/rand/v2"
	"strings"
	"time"

	"google.golang.org/grpc/codes"
	"google.golang.org/grpc/status"

	goat "github.com/avos-io/goat"
)

// ---------------------------------------------------------------------------
// C09: client transport read failure at every position.

type C09Params struct {
	Links      []LinkCfg   `json:"links"`
	Calls      []*CallSpec `json:"calls"`
	Late       []*CallSpec `json:"late"`       // started by tasks created together with the others, but parked until the failure is near
	Pos        int         `json:"pos"`        // fail after this many envelopes were handed to the client's Read
	WriteFails bool        `json:"write_fails"` // the write side fails too
	WriteBlocks bool       `json:"write_blocks,omitempty"` // the write side neither fails nor accepts: from just before the failure on, writes block until their context ends (a peer that is gone behind a flow-controlled transport)
	ErrKind    int         `json:"err_kind"`    // which error the failing Read reports (see InjectedErr)
	Side       SideOpts    `json:"side"`        // interceptors / stats handlers (family c20.clientfail)
}

func genC09(g *rand.Rand, tier string) any {
	p := &C09Params{}
	p.Links = drawLinks(g, 2)
	classU := g.IntN(2) == 0
	if classU {
		p.Links[0].Cap, p.Links[1].Cap = -1, -1
	}
	if g.IntN(5) == 0 {
		p.WriteBlocks = true
		p.Links[0].Cap = 0 // a write completes only when the peer takes it
		classU = false
	}
	n := 1 + g.IntN(6)
	id := 1
	for i := 0; i < n; i++ {
		c := &CallSpec{ID: id}
		id++
		if g.IntN(2) == 0 {
			c.Kind = KUnary
			c.ReqLen, c.RespLen = g.IntN(50), g.IntN(50)
		} else {
			c.Kind = 1 + g.IntN(3)
			genStream(g, c, Bias{MaxMsgs: 3}, classU)
		}
		if g.IntN(4) == 0 {
			c.Timeout = time.Duration(1+g.IntN(600)) * time.Second
		}
		p.Calls = append(p.Calls, c)
	}
	nl := g.IntN(4)
	for i := 0; i < nl; i++ {
		c := &CallSpec{ID: id}
		id++
		if g.IntN(2) == 0 {
			c.Kind = KUnary
			c.ReqLen, c.RespLen = g.IntN(50), g.IntN(50)
		} else {
			c.Kind = 1 + g.IntN(3)
			genStream(g, c, Bias{MaxMsgs: 2}, classU)
		}
		p.Late = append(p.Late, c)
	}
	p.Pos = g.IntN(4*n + 3)
	p.WriteFails = g.IntN(2) == 0 && !p.WriteBlocks
	p.ErrKind = g.IntN(NumInjectedErrs)
	for _, c := range p.Calls {
		// some handlers finish with a status of their own: a status that reached the
		// client before the connection failed is the call's outcome (C03)
		if c.Kind != KUnary && g.IntN(4) == 0 {
			c.HStatus = drawStatus(g)
			c.HStatus.ErrKind = g.IntN(2)
		}
	}
	return p
}

func execC09(e *Env, pp any) {
	p := pp.(*C09Params)
	sim := NewSim(e)
	for _, c := range append(append([]*CallSpec{}, p.Calls...), p.Late...) {
		if c != nil {
			sim.Add(c)
		}
	}
	obs := newSideObs(e, p.Side)
	srv := sim.NewServer(obs.serverOpts()...)
	net := Build(e, TopoSpec{Kind: TopoDirect, Clients: 1, Links: p.Links}, srv, obs.clientOpts)
	cin, cout := net.CEnds[0].In, net.CEnds[0].Out
	// which calls had their complete response handed to the client's Read
	complete := map[int]bool{}
	cin.OnRead(func(n int, r *Rpc) {
		if r.GetTrailer() != nil {
			if c := callOfWireID(net, r.GetId()); c != 0 {
				histMu.Lock()
				complete[c] = true
				histMu.Unlock()
			}
		}
	})
	failed := false
	release := make(chan struct{})
	for _, c := range p.Calls {
		if c == nil {
			continue
		}
		r := sim.Calls[c.ID]
		e.Go(fmt.Sprintf("caller.c%d", c.ID), func() { sim.RunCall(net.CCs[0], r) })
	}
	for _, c := range p.Late {
		if c == nil {
			continue
		}
		r := sim.Calls[c.ID]
		e.Go(fmt.Sprintf("late.c%d", c.ID), func() {
			<-release
			sim.RunCall(net.CCs[0], r)
		})
	}
	e.NoAutoAdvance = true
	reason := e.Drive(func() bool { return cin.ReadCount() >= p.Pos })
	e.NoAutoAdvance = false
	if reason == Crashed || reason == StepLimit {
		return
	}
	// release the late callers: from here on the scheduler decides whether
	// they start before, during (between the failure check and the
	// registration) or after the failure
	if p.WriteBlocks {
		cout.Stall()
		e.Note("fault.link.stall")
	}
	close(release)
	k := e.sch.IntN(40)
	for i := 0; i < k; i++ {
		if !e.stepOnce() {
			break
		}
	}
	inflight := 0
	for _, id := range sim.Order {
		r := sim.Calls[id]
		if r.Started && !r.Returned {
			inflight++
		}
	}
	failEv := e.Log("fault.readfail", "", 0, "")
	failed = true
	_ = failed
	cin.FailRead(InjectedErr(p.ErrKind))
	e.Note("fault.link.readFail")
	e.Note(fmt.Sprintf("readerr.kind%d", p.ErrKind%6))
	if p.WriteFails {
		cout.FailWrite(InjectedErr(p.ErrKind + 1))
		e.Note("fault.link.writeFail")
	}
	if inflight > 0 {
		e.Note("fault.inflight")
		e.Note("nontrivial")
	}
	reason = e.Settle()
	if reason == Crashed || reason == StepLimit {
		return
	}
	const prop = "C09"
	for _, id := range sim.Order {
		r := sim.Calls[id]
		c := r.Spec
		site := kindNames[c.Kind]
		if !r.Started {
			e.Violate(prop, "not-started", site, "call %d never started (harness)", id)
			continue
		}
		if !r.Returned {
			e.Violate(prop, "hang", site, "call %d (started at event %d, failure at %d) has not returned after the read failure and settle\n%s", id, r.StartEv, failEv, e.WaitGraph())
			if r.StartEv > failEv {
				e.Note("register.after.fail")
			}
			continue
		}
		if r.COverrun {
			e.Violate(prop, "recv-succeeds-for-ever", site, "call %d: RecvMsg kept returning success (%d messages; the handler sends %d) after the transport failed at event %d: the call never learns that the connection is gone", id, len(r.CGot), c.HSendN, failEv)
			continue
		}
		err, ok := callerErr(r)
		if c.Kind != KUnary && r.NewStreamErr != nil {
			err, ok = r.NewStreamErr, true
		}
		startedAfter := r.StartEv > failEv
		if startedAfter {
			e.Note("call.started.after.fail")
			if ok && err == nil && (c.Kind == KUnary || r.CFinalSet) {
				e.Violate(prop, "success-after-failure", site, "call %d started after the transport failed and reported success", id)
			}
			if c.Kind != KUnary && r.NewStreamErr == nil && readsAll(c.CProg) && !r.CFinalSet && !r.CStubDropped {
				e.Violate(prop, "no-error", site, "stream %d started after the failure never saw an error", id)
			}
			continue
		}
		if histMu.Lock(); c.Kind != KUnary && complete[id] && c.Timeout == 0 && r.HReturned && r.CFinalSet && len(r.CSendErr) == 0 && r.CloseErr == nil && readsAll(c.CProg) {
			histMu.Unlock()
			// The whole response of this stream, final status included, had been read by
			// the connection's read loop before the transport failed: what was delivered
			// before the failure counts (C02: a stream that completed successfully is never
			// reported failed; C03: the caller sees the handler's status), however the
			// caller's RecvMsg and the failure are interleaved afterwards.
			csite := site + ".completed-before-link-failure"
			if r.HRetErr == nil {
				if r.CFinal != io.EOF {
					e.Violate("C02", "success-reported-failed", csite, "call %d: the handler returned nil and the final status had reached the client before the connection failed (event %d); the caller's RecvMsg ended with %v after %d of %d messages", id, failEv, r.CFinal, len(r.CGot), r.HSent)
				} else if len(r.CGot) != r.HSent {
					e.Violate("C02", "client-recv-count", csite, "call %d: io.EOF after %d of the %d messages that had all reached the client before the connection failed", id, len(r.CGot), r.HSent)
				}
			} else if hs, isSt := status.FromError(r.HRetErr); isSt {
				if gs, _ := status.FromError(r.CFinal); r.CFinal == io.EOF || gs.Code() != hs.Code() || gs.Message() != hs.Message() {
					e.Violate("C03", "code-mismatch", csite, "call %d: the handler's status (%v, %q) had reached the client before the connection failed; the caller's RecvMsg ended with %v", id, hs.Code(), trunc(hs.Message()), r.CFinal)
				}
			}
			e.Note("c09.completed-before-failure")
		} else {
			histMu.Unlock()
		}
		if c.Kind == KCStream && len(r.CGot) >= 1 {
			// what the generated CloseAndRecv reports is the first RecvMsg's result: handing
			// the reply over with a nil error is reporting success
			histMu.Lock()
			comp := complete[id]
			histMu.Unlock()
			if !comp {
				e.Violate(prop, "fabricated-success", "cstream.first-recv", "call %d: the reply of the client-streaming call was handed to the caller with a nil error (CloseAndRecv would report success) although the connection failed before the call's final status arrived", id)
			}
		}
		if ok && err == nil && (c.Kind == KUnary || r.CFinalSet) {
			// success: only with the complete response handed over before the failure
			histMu.Lock()
			comp := complete[id]
			histMu.Unlock()
			if !comp {
				e.Violate(prop, "fabricated-success", site, "call %d reported success although its response had not been delivered before the failure", id)
			} else {
				e.Note("call.completed.before.fail")
			}
		}
	}
	// data of successful calls is exact
	saved := sim.Order
	var okCalls []int
	for _, id := range saved {
		r := sim.Calls[id]
		if err, ok := callerErr(r); ok && err == nil && r.Returned && r.NewStreamErr == nil && (r.Spec.Kind == KUnary || r.CFinalSet) {
			okCalls = append(okCalls, id)
		}
	}
	sim.Order = okCalls
	nv := len(e.Violations)
	checkUnaryPairing(e, sim, prop)
	run := &MixRun{E: e, Sim: sim, Net: net, P: &MixParams{}}
	checkStreamsClientSide(run, prop)
	sim.Order = saved
	_ = nv
	// C20, outcome "transport failure": whatever happened to the connection, each
	// client interceptor ran once per RPC and each client stats handler saw one
	// Begin and one End whose error is nil exactly when the RPC succeeded
	if s := p.Side; s.CliUnary+s.CliStream+s.CliStats > 0 {
		checkSide(&MixRun{E: e, Sim: sim, Net: net, Obs: obs, P: &MixParams{}, ClientSideOnly: true})
	}
}

// stepOnce performs exactly one scheduling decision (if any is enabled).
func (e *Env) stepOnce() bool {
	n := e.Step
	e.Drive(func() bool { return e.Step > n })
	return e.Step > n
}

// checkStreamsClientSide: what successful streams received is exactly what the handler sent.
func checkStreamsClientSide(run *MixRun, prop string) {
	e, sim := run.E, run.Sim
	for _, id := range sim.Order {
		r := sim.Calls[id]
		c := r.Spec
		if c.Kind == KUnary {
			continue
		}
		for i, m := range r.CGot {
			if string(m) != string(sim.hmsg(c, i)) {
				e.Violate(prop, "wrong-data", kindNames[c.Kind], "call %d: message %d differs from what the handler sent", id, i)
				break
			}
		}
		if readsAll(c.CProg) && r.CFinal == io.EOF && len(r.CGot) != r.HSent {
			e.Violate(prop, "wrong-data", kindNames[c.Kind], "call %d: io.EOF after %d messages, handler sent %d", id, len(r.CGot), r.HSent)
		}
	}
}

// ---------------------------------------------------------------------------
// C10: server connection shutdown.

type C10Params struct {
	Links  []LinkCfg   `json:"links"`
	Calls  []*CallSpec `json:"calls"`
	Fault  int         `json:"fault"` // 0 read failure on the server's inbound link, 1 write failure on its outbound link, 2 Stop
	Pos    int         `json:"pos"`
	StallOut bool      `json:"stall_out"` // server's outbound link stalled (handlers block in send)
}

func genC10(g *rand.Rand, tier string) any {
	p := &C10Params{}
	p.Links = drawLinks(g, 2)
	p.Links[0].Cap, p.Links[1].Cap = -1, -1
	if g.IntN(3) == 0 {
		p.Links[1].Cap = g.IntN(3) // handlers can block in send
	}
	nu, ns := g.IntN(9), g.IntN(9)
	if nu+ns == 0 {
		ns = 1
	}
	session := g.IntN(3) == 0
	id := 1
	for i := 0; i < nu; i++ {
		c := &CallSpec{ID: id, Kind: KUnary, ReqLen: g.IntN(30), RespLen: g.IntN(30)}
		id++
		switch g.IntN(3) {
		case 0:
			c.HProg = []Op{{K: 'w'}} // waits for its context
		case 1:
			c.HProg = nil // answers when scheduled
		default:
			c.HProg = []Op{{K: 'y'}, {K: 'w'}}
		}
		p.Calls = append(p.Calls, c)
	}
	for i := 0; i < ns; i++ {
		c := &CallSpec{ID: id, Kind: 1 + g.IntN(3), MsgLen: 10}
		id++
		// client: open, maybe send, then receive until the end; never half-closes
		// unless the handler needs it
		scen := g.IntN(5)
		if scen == 3 && p.Links[1].Cap != -1 {
			// With a bounded server-to-client link and callers that do not read, the
			// trailer of the returned handler waits behind the stuck writer, the
			// stream stays registered and the connection's reader blocks handing it
			// the next body: a flow-control deadlock of the workload in which the
			// server never reads again and so cannot observe a read failure.
			scen = g.IntN(3)
		}
		switch scen {
		case 4: // handler returns at once and its caller only listens: on a link that does not
			// drain, its final status waits behind whatever the connection's writer is stuck on
			c.CProg = []Op{{K: 'f', A: nil, B: []Op{{K: 'R'}}}}
			c.HProg = nil
		case 3: // handler returns at once while the caller keeps sending: late bodies are answered by server resets
			if c.Kind == KSStream {
				c.Kind = KBidi
			}
			n := 2 + g.IntN(4)
			c.CSendN = n
			c.CProg = []Op{{K: 'f', A: []Op{{K: 's', N: n}}, B: []Op{{K: 'R'}}}}
			c.HProg = nil
		case 0: // handler blocked in Recv
			c.CProg = []Op{{K: 'f', A: nil, B: []Op{{K: 'R'}}}}
			c.HProg = []Op{{K: 'R'}}
		case 1: // handler blocked in Send (or sending)
			c.HSendN = 1 + g.IntN(4)
			c.CProg = []Op{{K: 'f', A: nil, B: []Op{{K: 'w'}}}}
			c.HProg = []Op{{K: 's', N: c.HSendN}, {K: 'w'}}
			if p.Links[1].Cap != -1 && c.Kind != KCStream && g.IntN(2) == 0 {
				// a producer: sends until Send fails, which is how it learns that the call
				// is over (its caller does not read: it blocks in Send on the bounded link)
				c.HProg = []Op{{K: 'e'}}
			}
		default: // handler waits for its context
			c.CProg = []Op{{K: 'f', A: nil, B: []Op{{K: 'R'}}}}
			c.HProg = []Op{{K: 'w'}}
			if session {
				// one of a group of streams torn down together: returns once all of
				// the group have been cancelled (its caller never cancels it alone)
				c.HProg = []Op{{K: 'B'}}
			}
		}
		if g.IntN(3) == 0 && !(len(c.HProg) == 1 && c.HProg[0].K == 'B') {
			// the caller resets the stream (cancels) at some point, possibly just
			// before the connection ends
			var b []Op
			for k := g.IntN(4); k > 0; k-- {
				b = append(b, Op{K: 'y'})
			}
			c.CProg = []Op{{K: 'f', A: nil, B: append(b, Op{K: 'x'})}}
		}
		// handlers return promptly once their context is done, not instantly
		for k := g.IntN(4); k > 0; k-- {
			c.HProg = append(c.HProg, Op{K: 'y'})
		}
		p.Calls = append(p.Calls, c)
	}
	for _, c := range p.Calls {
		if g.IntN(3) == 0 {
			// a caller deadline far beyond anything the run does: the handler's context
			// carries it, and must still end with the connection, not with the deadline
			c.Timeout = time.Duration(1+g.IntN(10)) * time.Hour
		}
	}
	p.Fault = g.IntN(3)
	p.Pos = g.IntN(6*(nu+ns) + 4)
	p.StallOut = g.IntN(4) == 0
	return p
}

func execC10(e *Env, pp any) {
	p := pp.(*C10Params)
	sim := NewSim(e)
	for _, c := range p.Calls {
		if c != nil {
			sim.Add(c)
		}
	}
	srv := sim.NewServer()
	net := Build(e, TopoSpec{Kind: TopoDirect, Clients: 1, Links: p.Links}, srv, nil)
	sr := net.Serves[0]
	sin, sout := sr.ServerEnd.In, sr.ServerEnd.Out
	if p.StallOut {
		sout.Stall()
	}
	for _, c := range p.Calls {
		if c == nil {
			continue
		}
		r := sim.Calls[c.ID]
		e.Go(fmt.Sprintf("caller.c%d", c.ID), func() { sim.RunCall(net.CCs[0], r) })
	}
	e.NoAutoAdvance = true
	reason := e.Drive(func() bool { return e.EvCount() >= p.Pos })
	e.NoAutoAdvance = false
	if reason == Crashed || reason == StepLimit {
		return
	}
	// handlers in flight right now
	var inflight []*CallRec
	for _, id := range sim.Order {
		r := sim.Calls[id]
		if r.HInvoked > 0 && !r.HReturned {
			inflight = append(inflight, r)
		}
	}
	t := e.Log("fault", "", 0, fmt.Sprint(p.Fault))
	_ = t
	attemptsAtFault := sout.Attempts()
	switch p.Fault {
	case 0:
		sin.FailRead(InjectedErr(p.Pos))
		e.Note("fault.link.readFail")
	case 1:
		sout.FailWrite(InjectedErr(p.Pos))
		e.Note("fault.link.writeFail")
		// a write failure is only noticed when something is written: make the
		// unary handlers that wait for the scheduler answer
	default:
		e.Call("server.stop", srv.Stop)
		e.Note("fault.server.stop")
	}
	if len(inflight) > 0 {
		e.Note("fault.inflight")
		e.Note("nontrivial")
	}
	if p.StallOut {
		sout.Unstall()
	}
	// first quiescent point after the fault, before any timer is flushed:
	// cancellation needs no time, so once Serve has returned the context of every
	// handler that was in flight is done now - not only when its own deadline passes
	e.NoAutoAdvance = true
	reason = e.Drive(nil)
	e.NoAutoAdvance = false
	if reason == Crashed || reason == StepLimit {
		return
	}
	var liveAtQuiescence []*CallRec
	if sr.Returned {
		for _, r := range inflight {
			if r.HCtx != nil && r.HCtx.Err() == nil {
				liveAtQuiescence = append(liveAtQuiescence, r)
			}
		}
	}
	reason = e.Settle()
	if reason == Crashed || reason == StepLimit {
		return
	}
	const prop = "C10"
	faultName := []string{"readfail", "writefail", "stop"}[p.Fault%3]
	if p.Fault == 1 {
		// a write failure can only end Serve if the server tried to write after it
		attempted := sout.Attempts() > attemptsAtFault
		if !attempted {
			e.Note("writefail.no-write-attempted")
			return
		}
	}
	if !sr.Returned {
		e.Violate(prop, "serve-not-returned", faultName, "Serve has not returned after the %s and settle\n%s", faultName, e.WaitGraph())
		return
	}
	// (2) every streaming handler had finished when Serve returned
	for _, id := range sim.Order {
		r := sim.Calls[id]
		if r.Spec.Kind == KUnary || r.HInvoked == 0 {
			continue
		}
		if !r.HReturned || r.HReturnEv > sr.ReturnEv {
			e.Violate(prop, "stream-handler-outlives-serve", faultName, "streaming handler of call %d had not returned when Serve returned (handler return event %d, Serve %d)", id, r.HReturnEv, sr.ReturnEv)
		}
	}
	for _, r := range liveAtQuiescence {
		k := "stream"
		if r.Spec.Kind == KUnary {
			k = "unary"
		}
		e.Violate(prop, "handler-ctx-live", k+".until-own-deadline", "%s handler of call %d (caller timeout %v) was in flight when the connection ended (%s): Serve had returned and nothing was runnable, yet its context was still live", k, r.Spec.ID, r.Spec.Timeout, faultName)
	}
	// (3) context of every handler in flight is done
	for _, r := range inflight {
		if r.HCtx != nil && r.HCtx.Err() == nil {
			k := "stream"
			if r.Spec.Kind == KUnary {
				k = "unary"
			}
			e.Violate(prop, "handler-ctx-live", k, "%s handler of call %d was in flight when the connection ended (%s); its context is still live after settle", k, r.Spec.ID, faultName)
		}
	}
	// (4) once the handlers have returned: no goroutine of the connection remains.
	// First with the context passed to Serve still alive (nothing of the
	// connection may depend on the caller cancelling it) ...
	allReturned := true
	for _, id := range sim.Order {
		if r := sim.Calls[id]; r.HInvoked > 0 && !r.HReturned {
			allReturned = false
		}
	}
	if allReturned {
		for _, v := range e.W.Snapshot() {
			if v.Goat && v.Started && !v.Done && strings.HasPrefix(v.Name, sr.Name+"/") {
				l := v.Name + " @" + v.LastSite
				e.Violate(prop, "goroutine-leak", leakSite(l), "Serve has returned and every handler has returned, but a goroutine of the connection is still alive (the context passed to Serve is still live): %s", l)
			}
		}
	}
	// ... then after everything else has been torn down.
	e.Teardown()
	for _, l := range e.Leaked() {
		if strings.HasPrefix(l, sr.Name+"/") {
			e.Violate(prop, "goroutine-leak", leakSite(l), "goroutine of the connection still alive after the handlers returned: %s", l)
		}
	}
}

// leakSite reduces a leaked task description to its spawn site and last yield
// site (stable across runs).
func leakSite(l string) string {
	// name @lastsite ; name = parent/site#k/...
	at := strings.LastIndex(l, " @")
	name, last := l, ""
	if at >= 0 {
		name, last = l[:at], l[at+2:]
	}
	if i := strings.LastIndex(name, "/"); i >= 0 {
		name = name[i+1:]
	}
	if i := strings.LastIndex(name, "#"); i >= 0 {
		name = name[:i]
	}
	return name + "@" + last
}

// ---------------------------------------------------------------------------
// C11: abandoned streams.

type C11Params struct {
	Links   []LinkCfg   `json:"links"`
	Abandon *CallSpec   `json:"abandon"`
	Mode    int         `json:"mode"` // 0 handler returns after k of n, 1 caller cancels with m unread, 2 caller stops reading without cancelling, 3 handler stops reading (stays) while the caller sends on and then cancels
	Others  []*CallSpec `json:"others"`
	Probe   *CallSpec   `json:"probe"`
	Warmup  int         `json:"warmup,omitempty"` // streams the connection has carried (and the server has ended) before the scenario starts
	ErrKind int         `json:"err_kind,omitempty"` // mode 4: the error the transport reports for the refused write (InjectedErr)
}

func genC11(g *rand.Rand, tier string) any {
	p := &C11Params{}
	p.Links = drawLinks(g, 2)
	classU := g.IntN(2) == 0
	if classU {
		p.Links[0].Cap, p.Links[1].Cap = -1, -1
	}
	a := &CallSpec{ID: 1, Kind: 1 + g.IntN(3), MsgLen: 10}
	p.Mode = g.IntN(2)
	if g.IntN(5) == 0 {
		p.Mode = 2 + g.IntN(2)
	}
	if p.Mode < 2 && g.IntN(8) == 0 {
		p.Mode = 4
	}
	if p.Mode == 4 {
		// the transport refuses one message of the caller (the connection stays usable)
		// while m responses are unread; the caller does what generated code does with a
		// failed Send - it gives the call up, without cancelling anything
		a.Kind = KBidi
		a.Stub = true
		m := 3 + g.IntN(4)
		a.CSendN, a.HSendN = 1, m
		a.HProg = []Op{{K: 's', N: m}, {K: 'n'}, {K: 'w'}}
		a.CProg = []Op{{K: 'b'}, {K: 's'}}
		p.ErrKind = g.IntN(NumInjectedErrs)
		// (unbounded links: the handler's sends complete into the transport whether or not
		// anybody reads them)
		p.Links[0].Cap, p.Links[1].Cap = -1, -1
		classU = true
	} else if p.Mode == 2 {
		// the caller stops reading and does not cancel: it sits on its stream with
		// responses (and the final status) unread while the handler finishes
		if a.Kind == KCStream {
			a.Kind = KSStream
		}
		m := 1 + g.IntN(8)
		a.HSendN = m
		if a.Kind == KSStream {
			a.CSendN = 1
			a.HProg = []Op{{K: 'r'}}
		}
		a.HProg = append(a.HProg, Op{K: 's', N: m})
		var ap, b []Op
		if a.Kind == KSStream {
			ap = []Op{{K: 's'}, {K: 'c'}}
		}
		if read := g.IntN(m + 1); read > 0 {
			b = append(b, Op{K: 'r', N: read})
		}
		b = append(b, Op{K: 'w'})
		a.CProg = []Op{{K: 'f', A: ap, B: b}}
	} else if p.Mode == 3 {
		// the handler stops reading but stays (it waits for its context) while the
		// caller sends n more messages and then cancels
		if a.Kind == KSStream {
			a.Kind = KBidi
		}
		n := g.IntN(7)
		a.CSendN = n
		a.HProg = []Op{{K: 'w'}}
		var ap []Op
		if n > 0 {
			ap = []Op{{K: 's', N: n}}
		}
		a.CProg = []Op{{K: 'f', A: ap, B: []Op{{K: 'y'}, {K: 'y'}, {K: 'y'}, {K: 'x'}}}}
		p.Links[0].Cap, p.Links[1].Cap = -1, -1
		classU = true
	} else if p.Mode == 0 {
		if a.Kind == KSStream {
			a.Kind = KBidi
		}
		n := 1 + g.IntN(8)
		k := g.IntN(n)
		a.CSendN = n
		a.Early, a.EarlyK = true, k
		if k > 0 {
			a.HProg = append(a.HProg, Op{K: 'r', N: k})
		}
		if a.Kind == KCStream || g.IntN(2) == 0 {
			a.HSendN = 1
			a.HProg = append(a.HProg, Op{K: 's', N: 1})
		}
		if g.IntN(3) == 0 {
			a.HStatus = drawStatus(g)
		}
		a.CProg = []Op{{K: 'f', A: []Op{{K: 's', N: n}, {K: 'c'}}, B: []Op{{K: 'R'}}}}
		if a.Kind == KCStream && a.HSendN == 1 && g.IntN(2) == 0 {
			// the ordinary client-streaming caller: Send x n, then CloseAndRecv - it
			// cannot receive before it has finished sending
			a.CProg = []Op{{K: 's', N: n}, {K: 'c'}, {K: 'R'}}
			a.SeqCaller = true
			if g.IntN(2) == 0 {
				// not the connection's first streams: what the server remembers about the
				// streams it ended is bounded
				p.Warmup = 40 + g.IntN(120)
			}
		}
	} else {
		if a.Kind == KCStream {
			a.Kind = KSStream
		}
		m := g.IntN(9)
		a.HSendN = m
		a.CSendN = 0
		if a.Kind == KSStream {
			a.CSendN = 1
			a.HProg = []Op{{K: 'r'}}
		}
		if m > 0 {
			a.HProg = append(a.HProg, Op{K: 's', N: m})
		}
		a.HProg = append(a.HProg, Op{K: 'w'})
		read := 0
		if m > 0 {
			read = g.IntN(m + 1)
		}
		var ap []Op
		if a.Kind == KSStream {
			ap = []Op{{K: 's'}, {K: 'c'}}
		}
		b := []Op{}
		if read > 0 {
			b = append(b, Op{K: 'r', N: read})
		}
		// wait until the handler has queued its messages, then cancel and leave
		leave := Op{K: 'x'}
		if g.IntN(4) == 0 {
			// the caller does not cancel: a SendMsg of its own fails (in the codec) and it walks away
			leave = Op{K: 'u'}
		}
		b = append(b, Op{K: 'y'}, Op{K: 'y'}, Op{K: 'y'}, leave)
		if a.Kind == KBidi && m > 0 && g.IntN(3) == 0 {
			// both directions abandoned at once: the handler is still sending
			// while input it has not read yet piles up behind it (it reads only
			// after its burst), and the caller, with responses unread, gives up
			n := 2 + g.IntN(2)
			a.CSendN = n
			ap = []Op{{K: 's', N: n}}
			a.HProg = []Op{{K: 's', N: m}, {K: 'R'}}
			a.BothWays = true
			if g.IntN(2) == 0 {
				// the wait cycle this shape is after needs writes that block until the peer reads
				p.Links[0].Cap, p.Links[1].Cap = 0, 0
				classU = false // the other calls must then use the shapes that are deadlock-free on bounded links
			}
		}
		a.CProg = []Op{{K: 'f', A: ap, B: b}}
		if g.IntN(4) == 0 {
			// the caller has gone before the open even returns: its context is already
			// finished, but a transport that does not look at contexts still carries
			// the open, so the handler runs and speaks to nobody
			a.PreDone = 1 + g.IntN(2)
		}
	}
	p.Abandon = a
	no := g.IntN(5)
	for i := 0; i < no; i++ {
		c := &CallSpec{ID: 10 + i}
		if g.IntN(2) == 0 {
			c.Kind = KUnary
			c.ReqLen, c.RespLen = g.IntN(40), g.IntN(40)
		} else {
			c.Kind = 1 + g.IntN(3)
			genStream(g, c, Bias{MaxMsgs: 3}, classU)
		}
		if g.IntN(3) == 0 {
			c.Timeout = time.Duration(1+g.IntN(100)) * time.Second
		}
		p.Others = append(p.Others, c)
	}
	pr := &CallSpec{ID: 99}
	if g.IntN(2) == 0 {
		pr.Kind = KUnary
		pr.ReqLen, pr.RespLen = 12, 12
	} else {
		pr.Kind = 1 + g.IntN(3)
		genStream(g, pr, Bias{MaxMsgs: 2}, classU)
	}
	if g.IntN(2) == 0 {
		pr.Timeout = time.Duration(1+g.IntN(100)) * time.Second
	}
	p.Probe = pr
	return p
}

func execC11(e *Env, pp any) {
	p := pp.(*C11Params)
	if p.Abandon == nil || p.Probe == nil {
		return
	}
	sim := NewSim(e)
	ar := sim.Add(p.Abandon)
	for _, c := range p.Others {
		if c != nil && c.ID != p.Abandon.ID {
			sim.Add(c)
		}
	}
	if p.Probe.ID == p.Abandon.ID {
		return
	}
	pr := sim.Add(p.Probe)
	srv := sim.NewServer()
	net := Build(e, TopoSpec{Kind: TopoDirect, Clients: 1, Links: p.Links}, srv, nil)
	if p.Warmup > 0 {
		// the connection's earlier life: Warmup short streams, each ended by its handler
		sim.DefaultStream = func(kind int, ss grpc.ServerStream) error { return nil }
		wdone := false
		e.Go("caller.warmup", func() {
			for i := 0; i < p.Warmup; i++ {
				st, err := net.CCs[0].NewStream(context.Background(), streamDescs[KBidi], methodNames[KBidi])
				if err != nil {
					break
				}
				st.CloseSend()
				for st.RecvMsg(new(wrapperspb.BytesValue)) == nil {
				}
			}
			wdone = true
		})
		if rr := e.Drive(func() bool { return wdone }); rr == Crashed || rr == StepLimit {
			return
		}
		e.Note("abandon.after-warmup")
	}
	if p.Mode == 4 {
		refused := false
		var wireID uint64
		net.CEnds[0].Out.WriteFault = func(n int, r *Rpc) error {
			// (runs under the link's lock: no calls back into the link)
			if callOfEnvelope(r) == p.Abandon.ID && wireID == 0 {
				wireID = r.GetId()
			}
			if !refused && r.GetBody() != nil && wireID != 0 && r.GetId() == wireID {
				refused = true
				e.Note("fault.body.writeFail")
				return InjectedErr(p.ErrKind)
			}
			return nil
		}
	}
	e.Go("caller.abandon", func() { sim.RunCall(net.CCs[0], ar) })
	for _, c := range p.Others {
		if c == nil || c.ID == p.Abandon.ID || c.ID == p.Probe.ID {
			continue
		}
		r := sim.Calls[c.ID]
		e.Go(fmt.Sprintf("caller.c%d", c.ID), func() { sim.RunCall(net.CCs[0], r) })
	}
	e.NoAutoAdvance = true
	reason := e.Drive(nil)
	e.NoAutoAdvance = false
	if reason == Crashed || reason == StepLimit {
		return
	}
	// the abandonment has happened (handler returned / caller cancelled) or the
	// system is stuck already; start the probe
	e.Note("fault.handler.abandon")
	e.Note("nontrivial")
	e.Go("caller.probe", func() { sim.RunCall(net.CCs[0], pr) })
	reason = e.Settle()
	if reason == Crashed || reason == StepLimit {
		return
	}
	const prop = "C11"
	site := []string{"handler-returned-early", "caller-cancelled-unread", "caller-stopped-reading", "handler-stopped-reading", "caller-gave-up-after-refused-send"}[p.Mode%5]
	if p.Mode == 2 {
		e.Note("abandon.caller-stops-reading")
		if p.Abandon.HSendN-len(ar.CGot) >= 2 {
			e.Note("abandon.stopped.unread>=2")
		}
	}
	if p.Mode == 3 {
		e.Note("abandon.handler-stops-reading")
		if p.Abandon.CSendN >= 2 {
			e.Note("abandon.unconsumed>=2")
		}
	}
	if p.Mode == 0 && p.Abandon.SeqCaller {
		e.Note("abandon.sequential-cstream-caller")
	}
	if p.Mode == 0 && ar.HReturned {
		e.Note("abandon.handler-early")
		if unread := p.Abandon.CSendN - p.Abandon.EarlyK; unread >= 2 {
			e.Note("abandon.unread>=2")
		}
	}
	if p.Mode == 1 && p.Abandon.PreDone != 0 && ar.HInvoked > 0 {
		e.Note("abandon.ctx-done-during-open")
	}
	if p.Mode == 1 && hasOp(p.Abandon.CProg, 'u') && ar.CancelEv != 0 {
		e.Note("abandon.failed-send")
	}
	if p.Mode == 1 && p.Abandon.BothWays && ar.CancelEv != 0 {
		e.Note("abandon.both-directions")
	}
	if p.Mode == 1 && ar.CancelEv != 0 {
		e.Note("abandon.caller-cancel")
		if p.Abandon.HSendN-len(ar.CGot) >= 3 {
			e.Note("abandon.unread>=3")
		}
	}
	for _, id := range sim.Order {
		if id == p.Abandon.ID {
			continue
		}
		r := sim.Calls[id]
		c := r.Spec
		who := "other"
		if id == p.Probe.ID {
			who = "probe"
		}
		if !r.Returned {
			e.Violate(prop, "hang", site, "%s call %d (%s) has not completed after the abandonment and settle\n%s", who, id, kindNames[c.Kind], e.WaitGraph())
			continue
		}
		err, ok := callerErr(r)
		if c.Kind != KUnary && r.NewStreamErr != nil {
			err, ok = r.NewStreamErr, true
		}
		if !ok {
			continue
		}
		if err != nil {
			if c.Timeout != 0 {
				if st, isSt := status.FromError(err); (isSt && st.Code() == codes.DeadlineExceeded) || errors.Is(err, context.DeadlineExceeded) {
					e.Note("deadline.answered")
					continue
				}
			}
			if c.HStatus == nil {
				e.Violate(prop, "failed", site, "%s call %d failed with %v after another stream was abandoned", who, id, err)
				// C05: a call whose own context is live and which has no deadline cannot end
				// Canceled or DeadlineExceeded of its own: that is the end of the abandoned call
				if st, isSt := status.FromError(err); c.Timeout == 0 && r.Ctx != nil && r.Ctx.Err() == nil &&
					((isSt && (st.Code() == codes.Canceled || st.Code() == codes.DeadlineExceeded)) || errors.Is(err, context.Canceled) || errors.Is(err, context.DeadlineExceeded)) {
					e.Violate("C05", "foreign-status", site, "%s call %d, whose own context is live and has no deadline, ended with %v: the status of the stream that was abandoned next to it", who, id, err)
				}
			}
		}
	}
	if !ar.Returned && p.Mode == 0 && ar.HReturned && ar.HRetErr == nil {
		e.Violate("C02", "hang", "early-reply."+map[bool]string{true: "sequential-caller", false: "forked-caller"}[p.Abandon.SeqCaller], "the handler replied and returned success after %d of %d messages; its caller (connection's %d-th stream) never gets its reply or io.EOF\n%s", p.Abandon.EarlyK, p.Abandon.CSendN, p.Warmup+1, e.WaitGraph())
	}
	if !ar.Returned && p.Mode != 2 {
		e.Violate(prop, "hang", site+".self", "the abandoned stream's own client program has not finished\n%s", e.WaitGraph())
	}
	// the others' data is exact
	saved := sim.Order
	var others []int
	for _, id := range saved {
		r := sim.Calls[id]
		if id != p.Abandon.ID && r.Returned && r.Spec.Timeout == 0 {
			others = append(others, id)
		}
	}
	sim.Order = others
	nv := len(e.Violations)
	checkUnaryPairing(e, sim, prop)
	run := &MixRun{E: e, Sim: sim, Net: net, P: &MixParams{}}
	checkStreams(run)
	sim.Order = saved
	histMu.Lock()
	for i := nv; i < len(e.Violations); i++ {
		if e.Violations[i].Property == "C02" {
			e.Violations[i].Property = prop
			e.Violations[i].Class = "other-call-disturbed:" + e.Violations[i].Class
			e.Violations[i].Site = site
		}
	}
	histMu.Unlock()
	if p.Mode >= 2 {
		// a stalled connection (known findings F48/F49) has envelopes pending that
		// the wire rules would miss; they are judged in the other modes
		return
	}
	checkWireLinks(e, sim, []*Link{net.CEnds[0].Out}, []*Link{net.CEnds[0].In}, false)
}

// ---------------------------------------------------------------------------
// C14: everything released.

type C14Params struct {
	Links    []LinkCfg `json:"links"`
	N        int       `json:"n"`        // RPCs in the history
	Inflight int       `json:"inflight"` // concurrently
	GenSeed  uint64    `json:"genseed"`
	Outcomes []int     `json:"outcomes"` // weights: ok, error, cancel, deadline, early-return (server reset), failed open, context finished before the call, timeout already expired on arrival, a message write that fails once, a half-close write that fails once
	Side     SideOpts  `json:"side"`     // interceptors / stats handlers (family c20.outcomes)
}

func genC14(g *rand.Rand, tier string) any {
	p := &C14Params{}
	p.Links = drawLinks(g, 2)
	p.Links[0].Cap, p.Links[1].Cap = -1, -1
	p.N = 20 + g.IntN(80)
	if tier == "thorough" && g.IntN(4) == 0 {
		p.N = 500 + g.IntN(2000)
	}
	if g.IntN(6) == 0 {
		p.N = 200 + g.IntN(150) // long enough for anything bounded to have reached its bound in the first third
	}
	p.Inflight = 1 + g.IntN(32)
	p.GenSeed = g.Uint64()
	p.Outcomes = []int{1 + g.IntN(4), g.IntN(3), g.IntN(4), g.IntN(3), g.IntN(3), g.IntN(3), g.IntN(3), g.IntN(2), g.IntN(3), g.IntN(3)}
	return p
}

func execC14(e *Env, pp any) {
	p := pp.(*C14Params)
	if p.N <= 0 {
		return
	}
	if p.Inflight <= 0 {
		p.Inflight = 1
	}
	g := rand.New(rand.NewPCG(p.GenSeed, 14))
	sim := NewSim(e)
	obs := newSideObs(e, p.Side)
	srv := sim.NewServer(obs.serverOpts()...)
	net := Build(e, TopoSpec{Kind: TopoDirect, Clients: 1, Links: p.Links}, srv, obs.clientOpts)
	cc := net.CCs[0]
	cout := net.CEnds[0].Out
	// failed open: the transport write of chosen open envelopes fails once
	failOpen := map[int]bool{}
	failBody := map[int]bool{}   // calls whose next message write fails once (the connection stays usable)
	failClose := map[int]bool{}  // calls whose half-close write fails once
	wireCall := map[uint64]int{} // wire id -> call, learnt from the open envelope
	expiredOnArrival := map[int]string{} // call -> grpc-timeout value its first envelope carries on the wire
	cout.WriteFault = func(n int, r *Rpc) error {
		if c := callOfEnvelope(r); c != 0 {
			if _, seen := wireCall[r.GetId()]; !seen {
				if v := expiredOnArrival[c]; v != "" && r.GetHeader() != nil {
					r.Header.Headers = append([]*goatorepo.KeyValue{{Key: "grpc-timeout", Value: v}}, r.Header.Headers...)
				}
			}
			wireCall[r.GetId()] = c
		}
		if r.GetBody() == nil && r.GetTrailer() == nil && r.GetReset_() == nil {
			if c := callOfEnvelope(r); c != 0 && failOpen[c] {
				delete(failOpen, c)
				e.Note("fault.open.writeFail")
				return ErrInjected
			}
		}
		if r.GetTrailer() != nil && r.GetBody() == nil && r.GetReset_() == nil {
			if c := wireCall[r.GetId()]; c != 0 && failClose[c] {
				delete(failClose, c)
				e.Note("fault.close.writeFail")
				return ErrInjected
			}
		}
		if r.GetBody() != nil && r.GetReset_() == nil {
			if c := wireCall[r.GetId()]; c != 0 && failBody[c] {
				delete(failBody, c)
				e.Note("fault.body.writeFail")
				return ErrInjected
			}
		}
		return nil
	}
	tot := 0
	for len(p.Outcomes) < 10 {
		p.Outcomes = append(p.Outcomes, 0)
	}
	for _, w := range p.Outcomes {
		tot += w
	}
	if tot == 0 {
		p.Outcomes[0], tot = 1, 1
	}
	draw := func() int {
		r := g.IntN(tot)
		for i, w := range p.Outcomes {
			if r < w {
				return i
			}
			r -= w
		}
		return 0
	}
	needsTime := false // the current batch has a call that only ends when (simulated) time passes
	mk := func(id int) *CallSpec {
		c := &CallSpec{ID: id, MsgLen: 10}
		oc := draw()
		if g.IntN(3) == 0 {
			c.Kind = KUnary
			c.ReqLen, c.RespLen = g.IntN(30), g.IntN(30)
		} else {
			c.Kind = 1 + g.IntN(3)
			genStream(g, c, Bias{MaxMsgs: 3}, true)
		}
		if c.Kind == KSStream && c.Early && (oc == 2 || oc == 3) {
			// genStream's handler that finishes without reading the request would, with a
			// wait for its context appended below, be a live handler that does not read
			// while the caller sends request and half-close: known finding F49, judged in
			// C11. Here the handler reads its request first, as generated code does.
			c.Early, c.EarlyK = false, 0
			c.HProg = []Op{{K: 'r'}}
		}
		switch oc {
		case 1:
			c.HStatus = drawStatus(g)
			e.Note("outcome.error")
		case 2: // cancel at a random point
			if c.Kind != KUnary {
				// keep only sends / half-close of a prefix (a receive could wait
				// for a handler that itself waits for the cancellation)
				var flat []Op
				for _, op := range c.CProg {
					if op.K == 'f' {
						flat = append(flat, op.A...)
					} else {
						flat = append(flat, op)
					}
				}
				k := 0
				if len(flat) > 0 {
					k = g.IntN(len(flat) + 1)
				}
				var prog []Op
				for _, op := range flat[:k] {
					if op.K == 's' || op.K == 'c' {
						prog = append(prog, op)
					}
				}
				prog = append(prog, Op{K: 'x'}, Op{K: 'R'})
				c.CProg = prog
				c.HProg = append(c.HProg, Op{K: 'w'})
				if g.IntN(2) == 0 {
					// the call also carries a deadline far beyond the run: the cancellation,
					// not the deadline, must release what the server holds for it
					c.Timeout = time.Duration(1+g.IntN(100)) * time.Hour
				}
			} else {
				// goat sends nothing to the server when a unary caller gives up,
				// so the handler must finish by itself: it answers when scheduled
				c.HProg = []Op{{K: 'y'}, {K: 'y'}}
				c.Timeout = -1 // marker: cancelled by the history driver
			}
			e.Note("outcome.cancel")
		case 3:
			needsTime = true
			c.Timeout = time.Duration(1+g.IntN(50)) * time.Millisecond
			c.HProg = append(c.HProg, Op{K: 'w'})
			if c.Kind != KUnary && !readsAll(c.CProg) {
				c.CProg = append(c.CProg, Op{K: 'R'})
			}
			e.Note("outcome.deadline")
		case 4: // handler returns early: late bodies are answered by server resets
			if c.Kind == KBidi || c.Kind == KCStream {
				n := 2 + g.IntN(3)
				c.CSendN, c.Early, c.EarlyK = n, true, 0
				c.HProg = nil
				c.HSendN = 0
				if c.Kind == KCStream {
					c.HSendN = 1
					c.HProg = []Op{{K: 's'}}
				}
				c.CProg = []Op{{K: 'f', A: []Op{{K: 's', N: n}, {K: 'c'}}, B: []Op{{K: 'R'}}}}
				e.Note("outcome.server-reset")
			}
		case 5:
			if c.Kind != KUnary {
				failOpen[id] = true
				e.Note("outcome.failed-open")
			}
		case 6: // the caller's context is already cancelled / past its deadline when the call is made
			c.PreDone = 1 + g.IntN(2)
			if c.PreDone == 2 && g.IntN(2) == 0 {
				// a transport that does not look at the context still carries the request:
				// the deadline it conveys (already past) is all that ends a handler which
				// waits for its context - a unary call has no reset
				needsTime = true
				c.HProg = append(c.HProg, Op{K: 'w'})
				e.Note("outcome.ctx-expired-before-call.handler-waits")
			} else {
				c.HProg = append(c.HProg, Op{K: 'y'})
			}
			if c.Kind != KUnary && !readsAll(c.CProg) {
				c.CProg = append(c.CProg, Op{K: 'R'})
			}
			e.Note("outcome.ctx-done-before-call")
		case 7: // the request arrives with a timeout that has already run out: the RPC still exists on the server
			// (goat's own client never sends a timeout below 1m and, since F54, drops a
			// grpc-timeout found in user metadata: the value is put on the envelope in
			// the transport, as a foreign client or a slow network would present it)
			expiredOnArrival[id] = []string{"0m", "0n", "0S", "1n"}[g.IntN(4)]
			e.Note("outcome.expired-on-arrival")
		case 8: // one message write fails in the transport while the handler is still waiting for the caller (the connection stays usable)
			if c.Kind == KBidi || c.Kind == KCStream {
				n := 1 + g.IntN(3)
				c.CSendN, c.HSendN = n, 0
				c.CProg = []Op{{K: 'f', A: []Op{{K: 's', N: n}, {K: 'c'}}, B: []Op{{K: 'R'}}}}
				c.HProg = []Op{{K: 'R'}}
				if c.Kind == KCStream {
					c.HSendN = 1
					c.HProg = append(c.HProg, Op{K: 's'})
				}
				failBody[id] = true
				e.Note("outcome.failed-send")
			}
		case 9: // the half-close fails in the transport (the connection stays usable); like the generated stubs, the caller gives the call up on that error
			if c.Kind != KUnary {
				c.CSendN, c.HSendN = 1, 0
				c.CProg = []Op{{K: 's'}, {K: 'c', N: 1}, {K: 'R'}}
				c.HProg = []Op{{K: 'R'}}
				if c.Kind != KBidi {
					c.HSendN = 1
					c.HProg = append(c.HProg, Op{K: 's'})
				}
				failClose[id] = true
				e.Note("outcome.failed-close")
			}
		default:
			e.Note("outcome.ok")
		}
		return c
	}
	const prop = "C14"
	var remembered [][2]int // (RPCs done, elements held) at idle points
	baseline := -1
	baseCliCtx, baseSrvCtx := -1, 0
	sample := func(when string) bool {
		// quiescent and nothing in flight: registries empty, goroutines at baseline
		reg := goat.VerifClientRegistered(cc)
		if reg > 0 { // (negative: unknown - the accessors could not be compiled against this tree)
			e.Violate(prop, "client-registration-leak", "client.mux", "%s: %d call(s) still registered on the client connection with no RPC in flight", when, reg)
			return false
		}
		for _, h := range e.W.TrackedObjects("server.handler") {
			if n := goat.VerifServerStreams(h); n > 0 {
				e.Violate(prop, "server-registration-leak", "server.handler", "%s: %d stream(s) still registered on the server connection with no RPC in flight", when, n)
				return false
			}
		}
		// contexts: every per-call context and hook registered on the connection's
		// contexts is gone again (state bounded; what a context pins is not collected)
		cliCtx := ctxDescendants(goat.VerifClientCtx(cc))
		srvCtx := 0
		for _, sr := range net.Serves {
			if d := ctxDescendants(sr.Ctx); d >= 0 {
				srvCtx += d
			}
		}
		for _, h := range e.W.TrackedObjects("server.handler") {
			if d := ctxDescendants(goat.VerifServerCtx(h)); d >= 0 {
				srvCtx += d
			}
		}
		if baseline >= 0 && cliCtx >= 0 && baseCliCtx >= 0 && cliCtx > baseCliCtx {
			e.Violate(prop, "context-leak", "client.mux", "%s: %d contexts / hooks registered under the client connection's context with no RPC in flight, idle baseline %d", when, cliCtx, baseCliCtx)
			return false
		}
		if baseline >= 0 && srvCtx > baseSrvCtx {
			e.Violate(prop, "context-leak", "server.handler", "%s: %d contexts registered under the server connection's contexts with no RPC in flight, idle baseline %d", when, srvCtx, baseSrvCtx)
			return false
		}
		if baseline < 0 {
			baseCliCtx, baseSrvCtx = cliCtx, srvCtx
		}
		e.Notes["ctx.children.sampled"]++
		alive := 0
		var names []string
		for _, v := range e.W.Snapshot() {
			if v.Goat && v.Started && !v.Done {
				alive++
				names = append(names, v.Name+" @"+v.LastSite)
			}
		}
		if baseline < 0 {
			baseline = alive
			return true
		}
		if alive != baseline {
			extra := ""
			for _, n := range names {
				if !strings.Contains(n, "serve:go#") && !strings.Contains(n, "NewRpcMultiplexer:go#") {
					extra += "\n  " + n
				}
			}
			site := "goroutines"
			if extra != "" {
				site = leakSite(strings.TrimSpace(strings.Split(strings.TrimSpace(extra), "\n")[0]))
			}
			e.Violate(prop, "goroutine-leak", site, "%s: %d goat goroutines alive with no RPC in flight, idle baseline %d%s", when, alive, baseline, extra)
			return false
		}
		return true
	}
	if e.Settle() != Quiescent {
		return
	}
	sample("after connection set-up")
	next := 1
	done := 0
	for done < p.N {
		batch := 1 + g.IntN(p.Inflight)
		if batch > p.N-done {
			batch = p.N - done
		}
		var recs []*CallRec
		needsTime = false
		for i := 0; i < batch; i++ {
			c := mk(next)
			r := sim.Add(c)
			recs = append(recs, r)
			name := fmt.Sprintf("caller.c%d", next)
			next++
			e.Go(name, func() { sim.RunCall(cc, r) })
			if c.Timeout == -1 {
				// the scheduler decides where in the call's life the caller gives up
				e.Go("cancel.c"+fmt.Sprint(c.ID), func() {
					for i := 0; i < 50; i++ {
						e.Pt("cancel.wait")
						histMu.Lock()
						cf, ret := r.Cancel, r.Returned
						histMu.Unlock()
						if ret {
							return
						}
						if cf != nil && e.sch.IntN(3) == 0 {
							cf()
							return
						}
					}
				})
			}
		}
		// unary calls marked for cancellation: cancel once their handler runs
		e.NoAutoAdvance = !needsTime
		r0 := e.Drive(nil)
		if r0 == Crashed || r0 == StepLimit {
			e.NoAutoAdvance = false
			return
		}
		for _, r := range recs {
			if r.Spec.Timeout == -1 && r.Cancel != nil {
				r.Cancel()
			}
		}
		if !needsTime {
			// nothing in this batch needs time to pass: everything is released at the
			// first quiescent point, before any timer (a far deadline, say) has fired
			r1 := e.Drive(nil)
			e.NoAutoAdvance = false
			if r1 == Crashed || r1 == StepLimit {
				return
			}
			allBack := true
			for _, r := range recs {
				if !r.Returned {
					allBack = false
				}
			}
			if allBack {
				e.Note("sample.before-any-timer")
				if !sample(fmt.Sprintf("after %d RPCs, before any timer fired", done+batch)) {
					return
				}
			}
		}
		e.NoAutoAdvance = false
		if rr := e.Settle(); rr != Quiescent {
			return
		}
		for _, r := range recs {
			if !r.Returned {
				e.Violate(prop, "hang", kindNames[r.Spec.Kind], "call %d of the history never returned\n%s", r.Spec.ID, e.WaitGraph())
				return
			}
		}
		// whatever a call of the history received is its own (C05: however calls
		// end and however their envelopes interleave, nothing crosses over)
		for _, r := range recs {
			c := r.Spec
			if c.Kind == KUnary {
				if r.InvokeErr == nil && r.HInvoked == 1 && c.HStatus == nil && !bytes.Equal(r.InvokeResp, c.Resp) {
					cc, d, _, ok := payloadTag(r.InvokeResp)
					e.Violate("C05", "cross-delivery", "unary", "call %d of a history returned a reply that is not its own (%d bytes, tag call=%d dir=%c ok=%v)", c.ID, len(r.InvokeResp), cc, d, ok)
					if c.Timeout == 0 && c.PreDone == 0 {
						// an ordinary call (never cancelled, no deadline): C01's pairing holds for it whatever its neighbours did
						e.Violate("C01", "reply-mismatch", "unary.history", "call %d, an ordinary unary call in a history with cancelled and expired neighbours, returned a reply that is not its own (tag call=%d)", c.ID, cc)
					}
				}
				if r.InvokeErr == nil && c.HStatus != nil && r.HInvoked == 1 {
					e.Violate("C05", "cross-delivery", "unary", "call %d of a history whose handler failed returned success", c.ID)
				}
				continue
			}
			for i, m := range r.CGot {
				if !bytes.Equal(m, sim.hmsg(c, i)) {
					cc, d, sq, _ := payloadTag(m)
					e.Violate("C05", "cross-delivery", kindNames[c.Kind], "stream %d of a history received message %d = (call=%d dir=%c seq=%d)", c.ID, i, cc, d, sq)
					break
				}
			}
		}
		// interceptors and stats handlers saw every RPC of the batch exactly once,
		// whatever its outcome (C20)
		checkSide(&MixRun{E: e, Sim: sim, Net: net, Obs: obs, P: &MixParams{}})
		done += batch
		e.Note("nontrivial")
		if !sample(fmt.Sprintf("after %d RPCs", done)) {
			return
		}
		{
			// what the two connection objects remember at this idle point: the elements of
			// every map, slice and channel they own (no field is named)
			tot := goat.VerifClientContainerTotal(cc)
			for _, h := range e.W.TrackedObjects("server.handler") {
				tot += goat.VerifContainerTotal(h)
			}
			remembered = append(remembered, [2]int{done, tot})
		}
		// forget finished calls (keeps the history's memory bounded)
		histMu.Lock()
		for _, r := range recs {
			delete(sim.Calls, r.Spec.ID)
		}
		sim.Order = sim.Order[:0]
		e.Hist = e.Hist[:0]
		histMu.Unlock()
		for _, l := range e.links {
			l.ClearTap()
		}
	}
	e.Notes["rpcs"] += done
	if p.N >= 150 && len(remembered) >= 3 {
		// state bounded: over the second and over the last third of a long history the
		// connections' containers must not both have grown by half an element per RPC
		at := func(k int) [2]int {
			best := remembered[0]
			for _, r := range remembered {
				if abs(r[0]-k) < abs(best[0]-k) {
					best = r
				}
			}
			return best
		}
		a, b, c := at(p.N/3), at(2*p.N/3), remembered[len(remembered)-1]
		e.Note("c14.long-history")
		if b[0] > a[0] && c[0] > b[0] && 2*(b[1]-a[1]) >= b[0]-a[0] && 2*(c[1]-b[1]) >= c[0]-b[0] {
			e.Violate(prop, "state-grows-with-history", "connection-containers", "with no RPC in flight the client and server connection objects held %d elements in their maps, slices and channels after %d RPCs, %d after %d and %d after %d: what they remember grows with the length of the history", a[1], a[0], b[1], b[0], c[1], c[0])
		}
	}
}

func abs(x int) int {
	if x < 0 {
		return -x
	}
	return x
}

func init() {
	Register(&Family{Name: "c09.clientfail", ShrinkKeys: []string{"calls", "late", "pos"}, Props: []string{"C09", "C02", "C03"}, New: func() any { return &C09Params{} }, Gen: genC09, Exec: execC09,
		Faulty: true, FaultKinds: []string{"link.readFail", "link.writeFail"}})
	Register(&Family{Name: "c20.clientfail", ShrinkKeys: []string{"calls", "late", "pos"}, Props: []string{"C20"}, New: func() any { return &C09Params{} }, Exec: execC09,
		Gen: func(g *rand.Rand, tier string) any {
			p := genC09(g, tier).(*C09Params)
			p.Side = SideOpts{CliUnary: g.IntN(4), CliStream: g.IntN(4), CliStats: 1 + g.IntN(3)}
			return p
		}, Faulty: true, FaultKinds: []string{"link.readFail", "link.writeFail"}})
	Register(&Family{Name: "c10.shutdown", ShrinkKeys: []string{"calls", "pos"}, Props: []string{"C10"}, New: func() any { return &C10Params{} }, Gen: genC10, Exec: execC10,
		Faulty: true, FaultKinds: []string{"link.readFail", "link.writeFail", "server.stop", "link.stall"}})
	Register(&Family{Name: "c11.abandon", ShrinkKeys: []string{"others"}, Props: []string{"C11", "C05", "C02"}, New: func() any { return &C11Params{} }, Gen: genC11, Exec: execC11,
		Faulty: true, FaultKinds: []string{"handler.abandon", "ctx.cancel"}})
	// c02.longconn: the ordinary client-streaming exchange with a handler that replies early
	// (Recv x k, SendAndClose; caller Send x n, CloseAndRecv) on a low-buffer transport, as
	// the connection's (W+1)-th stream for W around the bounds of what a server may remember
	Register(&Family{Name: "c02.longconn", ShrinkKeys: []string{}, Props: []string{"C02", "C11"}, New: func() any { return &C11Params{} }, Exec: execC11,
		Gen: func(g *rand.Rand, tier string) any {
			p := &C11Params{Links: []LinkCfg{{Cap: g.IntN(2), Serialise: g.IntN(2) == 0, Strict: g.IntN(2) == 0}, {Cap: g.IntN(2), Serialise: g.IntN(2) == 0, Strict: g.IntN(2) == 0}}}
			n := 5 + g.IntN(4)
			k := g.IntN(n - 4)
			a := &CallSpec{ID: 1, Kind: KCStream, MsgLen: []int{10, 10, -1, 300}[g.IntN(4)], CSendN: n, HSendN: 1, Early: true, EarlyK: k, SeqCaller: true} // MsgLen -1: messages that encode to zero bytes
			if k > 0 {
				a.HProg = append(a.HProg, Op{K: 'r', N: k})
			}
			a.HProg = append(a.HProg, Op{K: 's', N: 1})
			a.CProg = []Op{{K: 's', N: n}, {K: 'c'}, {K: 'R'}}
			p.Abandon = a
			p.Warmup = []int{0, 1, 30, 63, 64, 65, 100, 130, 200}[g.IntN(9)]
			// other streams of the connection that begin and end (by their handlers) while
			// the caller is still sending: whatever the server remembers about the stream
			// that replied early has to outlast them
			for i, no := 0, []int{0, 0, 3, 4, 5, 8}[g.IntN(6)]; i < no; i++ {
				p.Others = append(p.Others, &CallSpec{ID: 10 + i, Kind: KBidi, MsgLen: 10, CProg: []Op{{K: 'c'}, {K: 'R'}}})
			}
			if len(p.Others) > 0 && p.Warmup > 30 {
				p.Warmup = []int{0, 1, 30}[g.IntN(3)] // (short runs: this variant is about what happens during the call)
			}
			p.Probe = &CallSpec{ID: 99, Kind: KUnary, ReqLen: 12, RespLen: 12}
			return p
		},
		Faulty: true, FaultKinds: []string{"handler.abandon"}})
	Register(&Family{Name: "c14.history", ShrinkKeys: []string{"n", "inflight"}, Props: []string{"C14"}, New: func() any { return &C14Params{} }, Gen: genC14, Exec: execC14,
		Faulty: true, FaultKinds: []string{"ctx.cancel", "ctx.deadline", "open.writeFail", "handler.abandon"}})
	Register(&Family{Name: "c20.outcomes", ShrinkKeys: []string{"n", "inflight"}, Props: []string{"C20"}, New: func() any { return &C14Params{} }, Gen: func(g *rand.Rand, tier string) any {
		p := genC14(g, tier).(*C14Params)
		p.N = 8 + g.IntN(30)
		p.Side = drawSideOpts(g)
		if p.Side.CliStats+p.Side.SrvStats == 0 {
			p.Side.CliStats, p.Side.SrvStats = 1, 1
		}
		p.Outcomes = []int{2, 1 + g.IntN(2), 1 + g.IntN(3), 1 + g.IntN(2), g.IntN(2), 1 + g.IntN(3), g.IntN(2), 1 + g.IntN(2), g.IntN(2), g.IntN(2)}
		return p
	}, Exec: execC14, Faulty: true, FaultKinds: []string{"ctx.cancel", "ctx.deadline", "open.writeFail", "handler.abandon"}})
}

// c15.break: several streams sending flat out while the connection's read
// and write sides fail together (a workload aimed at the race detector: the
// failing read loop and the failing senders touch the same connection state).
func genC15Break(g *rand.Rand, tier string) any {
	p := &C09Params{Links: drawLinks(g, 2), WriteFails: true}
	p.Links[0].Cap, p.Links[1].Cap = -1, -1
	n := 2 + g.IntN(6)
	for i := 0; i < n; i++ {
		c := &CallSpec{ID: i + 1, Kind: []int{KBidi, KCStream}[g.IntN(2)], MsgLen: 10}
		c.CSendN = 5 + g.IntN(25)
		c.CProg = []Op{{K: 'f', A: []Op{{K: 's', N: c.CSendN}, {K: 'c'}}, B: []Op{{K: 'R'}}}}
		c.HProg = []Op{{K: 'R'}}
		if c.Kind == KCStream {
			c.HSendN = 1
			c.HProg = append(c.HProg, Op{K: 's'})
		}
		p.Calls = append(p.Calls, c)
	}
	p.Pos = g.IntN(3)
	p.ErrKind = g.IntN(NumInjectedErrs)
	return p
}

func init() {
	Register(&Family{Name: "c15.break", ShrinkKeys: []string{"calls", "pos"}, Props: []string{"C15", "C09"}, New: func() any { return &C09Params{} }, Gen: genC15Break, Exec: execC09,
		Faulty: true, FaultKinds: []string{"link.readFail", "link.writeFail"}})
}
