package verifsim

import (
	"context"
	"fmt"
	"time"
	"math/rand/v2"
	"strings"

	"github.com/avos-io/goat/gen/goatorepo"

	goat "github.com/avos-io/goat"
)

// C18: the demultiplexer.

type DemuxParams struct {
	Links    []LinkCfg `json:"links"`
	Keys     int       `json:"keys"`
	Seq      []int     `json:"seq"`      // keys of the envelopes fed on the shared transport, in order
	Reads    []int     `json:"reads"`    // per announced connection (in announcement order): how many envelopes it reads (-1: all it can get)
	Writes   []int     `json:"writes"`   // per announced connection: how many envelopes it writes on its logical connection
	CancelKey int      `json:"cancel_key"` // -1: none
	CancelAt int       `json:"cancel_at"`  // after this many envelopes were fed
	Cancels  int       `json:"cancels,omitempty"` // how many tasks call Cancel(key) at that point (concurrent cancels of one key are legal)
	StopAt   int       `json:"stop_at"`    // -1: only at the end
	WFail    int       `json:"wfail,omitempty"` // >0: the WFail-th write on the shared transport fails once (the transport stays usable)
	Gated    bool      `json:"gated,omitempty"` // consumption order: the consumer of the first announced connection starts reading only once every other key's envelopes have been read
}

func genDemux(g *rand.Rand, tier string) any {
	p := &DemuxParams{Links: drawLinks(g, 2), Keys: 1 + g.IntN(8), CancelKey: -1, StopAt: -1}
	for i := range p.Links {
		if g.IntN(2) == 0 {
			p.Links[i].Cap = -1
		}
	}
	n := 1 + g.IntN(30)
	for i := 0; i < n; i++ {
		p.Seq = append(p.Seq, g.IntN(p.Keys))
	}
	for i := 0; i < p.Keys+3; i++ {
		switch g.IntN(5) {
		case 0:
			p.Reads = append(p.Reads, 0) // never reads
		case 1:
			p.Reads = append(p.Reads, 1+g.IntN(3))
		default:
			p.Reads = append(p.Reads, -1)
		}
		p.Writes = append(p.Writes, g.IntN(4))
	}
	if g.IntN(2) == 0 {
		p.CancelKey = g.IntN(p.Keys)
		p.CancelAt = g.IntN(n + 1)
		p.Cancels = 1
		if g.IntN(3) == 0 {
			p.Cancels = 2 + g.IntN(2)
		}
	}
	if g.IntN(3) == 0 {
		p.StopAt = g.IntN(n + 1)
	}
	return p
}

func execDemux(e *Env, pp any) {
	p := pp.(*DemuxParams)
	if p.Keys <= 0 {
		return
	}
	lc := func(i int) LinkCfg {
		if i < len(p.Links) {
			return p.Links[i]
		}
		return LinkCfg{Cap: -1}
	}
	a, b := e.NewConn("sh", lc(0), lc(1)) // a: raw peer side, b: demux side
	dctx, dcancel := context.WithCancel(context.Background())
	e.OnTeardown(dcancel)
	rctx, rcancel := context.WithCancel(context.Background())
	e.OnTeardown(rcancel)
	keyName := func(k int) string { return fmt.Sprintf("k%d", k) }
	type connRec struct {
		idx      int
		key      string
		read     []string
		readErr  error
		readDone bool
		wrote    []string
		writeErr error
		finished bool
		annEv    int
		rw       goat.RpcReadWriter
	}
	var conns []*connRec
	// Gated: the first announced connection belongs to the key of the first envelope;
	// its consumer waits until all envelopes of the other keys have been read
	othersDone := make(chan struct{})
	gatedRead, gatedWant := 0, 0
	if p.Gated && len(p.Seq) > 0 {
		first := p.Seq[0] % max(p.Keys, 1)
		for _, k := range p.Seq {
			if k%max(p.Keys, 1) != first {
				gatedWant++
			}
		}
		if gatedWant == 0 {
			close(othersDone)
		}
	}
	cancelDone := false
	cancelEv := 0
	dm := goat.NewDemux(dctx, b, func(r *goat.Rpc) string { return r.GetHeader().GetSource() }, func(rw goat.RpcReadWriter) {
		// runs on a goat goroutine
		histMu.Lock()
		cr := &connRec{idx: len(conns), rw: rw}
		conns = append(conns, cr)
		histMu.Unlock()
		cr.annEv = e.Log("demux.announce", "", cr.idx, "")
		nr, nw := -1, 0
		if cr.idx < len(p.Reads) {
			nr = p.Reads[cr.idx]
		}
		if cr.idx < len(p.Writes) {
			nw = p.Writes[cr.idx]
		}
		if p.Gated && cr.idx == 0 {
			select {
			case <-othersDone:
			case <-rctx.Done():
			}
		}
		for i := 0; nr < 0 || i < nr; i++ {
			e.Pt("conn.read")
			r, err := rw.Read(rctx)
			if err != nil {
				histMu.Lock()
				cr.readErr = err
				histMu.Unlock()
				break
			}
			histMu.Lock()
			if cr.key == "" {
				cr.key = r.GetHeader().GetSource()
			}
			cr.read = append(cr.read, string(r.GetBody().GetData()))
			if p.Gated && cr.idx != 0 {
				gatedRead++
				if gatedRead == gatedWant {
					close(othersDone)
				}
			}
			histMu.Unlock()
			e.Log("conn.read", "", cr.idx, "")
		}
		histMu.Lock()
		cr.readDone = true
		histMu.Unlock()
		for i := 0; i < nw; i++ {
			e.Pt("conn.write")
			pl := fmt.Sprintf("w-%d-%d", cr.idx, i)
			// every other write uses a context of its own that ends as soon as the
			// Write has returned (a per-call timeout with defer cancel()): an envelope
			// whose Write reported success is on its way regardless
			wctx, wcancel := rctx, context.CancelFunc(func() {})
			if i%2 == 1 {
				wctx, wcancel = context.WithCancel(rctx)
			}
			err := rw.Write(wctx, &Rpc{Id: uint64(5000 + cr.idx*10 + i), Header: &goatorepo.RequestHeader{Method: "/raw/W", Source: "demuxed", Destination: cr.key},
				Body: &goatorepo.Body{Data: []byte(pl)}})
			wcancel()
			histMu.Lock()
			if err != nil {
				cr.writeErr = err
				histMu.Unlock()
				break
			}
			cr.wrote = append(cr.wrote, pl)
			histMu.Unlock()
		}
		histMu.Lock()
		cr.finished = true
		histMu.Unlock()
	})
	failedIdx, failedPayload := -1, ""
	if p.WFail > 0 {
		b.Out.WriteFault = func(n int, r *Rpc) error {
			if n == p.WFail && failedIdx < 0 {
				failedPayload = string(r.GetBody().GetData())
				fmt.Sscanf(failedPayload, "w-%d-", &failedIdx)
				e.Note("fault.link.writeFail")
				return ErrInjected
			}
			return nil
		}
	}
	runReturned := false
	e.Go("demux.run", func() {
		dm.Run()
		runReturned = true
		e.Log("demux.run.ret", "", 0, "")
	})
	// the raw peer drains what the demux writes to the shared transport
	e.Go("raw.reader", func() {
		for {
			if _, err := a.Read(rctx); err != nil {
				return
			}
		}
	})
	fed := 0
	var feedStart []int // event number at which the feeder began writing envelope i
	fedN := func() int { histMu.Lock(); defer histMu.Unlock(); return fed }
	e.Go("raw.feeder", func() {
		for i, k := range p.Seq {
			e.Pt("feed")
			pl := fmt.Sprintf("in-%d-k%d", i, k%max(p.Keys, 1))
			ev := e.Log("feed.start", "", i, "")
			histMu.Lock()
			feedStart = append(feedStart, ev)
			histMu.Unlock()
			if a.Write(rctx, &Rpc{Id: uint64(i + 1), Header: &goatorepo.RequestHeader{Method: "/raw/M", Source: keyName(k % max(p.Keys, 1)), Destination: "srv"},
				Body: &goatorepo.Body{Data: []byte(pl)}}) != nil {
				return
			}
			histMu.Lock()
			fed++
			histMu.Unlock()
		}
	})
	stopped := false
	for {
		reason := e.Drive(func() bool {
			if p.CancelKey >= 0 && !cancelDone && fedN() >= p.CancelAt {
				return true
			}
			if p.StopAt >= 0 && !stopped && fedN() >= p.StopAt {
				return true
			}
			return false
		})
		if reason == Crashed || reason == StepLimit {
			return
		}
		if reason != CondMet {
			break
		}
		if p.CancelKey >= 0 && !cancelDone && fed >= p.CancelAt {
			cancelDone = true
			k := keyName(p.CancelKey % p.Keys)
			e.Note("fault.demux.cancel")
			for ci := 0; ci < max(p.Cancels, 1); ci++ {
				e.Go(fmt.Sprintf("canceller%d", ci), func() {
					e.Pt("cancel")
					dm.Cancel(k)
					ev := e.Log("demux.cancel", "", 0, k)
					histMu.Lock()
					if ev > cancelEv {
						cancelEv = ev // "after Cancel returned" = after the last of them
					}
					histMu.Unlock()
				})
			}
			if p.Cancels > 1 {
				e.Note("fault.demux.cancel.concurrent")
			}
			continue
		}
		if p.StopAt >= 0 && !stopped && fed >= p.StopAt {
			stopped = true
			e.Note("fault.demux.stop")
			e.Go("stopper", func() {
				e.Pt("stop")
				e.Log("demux.stop", "", 0, "")
				dm.Stop()
			})
		}
	}
	reason := e.Settle()
	if reason == Crashed || reason == StepLimit {
		return
	}
	e.Note("nontrivial")
	const prop = "C18"
	histMu.Lock()
	cs := append([]*connRec(nil), conns...)
	histMu.Unlock()
	// input subsequence per key
	inputs := map[string][]string{}
	for i, k := range p.Seq {
		if i >= fed {
			break
		}
		kn := keyName(k % p.Keys)
		inputs[kn] = append(inputs[kn], fmt.Sprintf("in-%d-k%d", i, k%p.Keys))
	}
	cancelKey := ""
	if cancelDone {
		cancelKey = keyName(p.CancelKey % p.Keys)
	}
	if failedIdx >= 0 && failedIdx < len(cs) {
		// a write of this logical connection was refused by the shared transport: the
		// connection may be failed for it (and its key then starts afresh, as after a
		// Cancel), but its consumer is not left blocked
		fc := cs[failedIdx]
		e.Note("demux.write-refused")
		if !fc.finished && !stopped {
			e.Violate(prop, "blocked-after-write-error", "demux.go:newConnLocked", "the shared transport refused one envelope (%s) of logical connection %d (key %s) and stayed usable; the connection was not failed and its consumer is blocked in a later Write for good\n%s", failedPayload, fc.idx, fc.key, e.WaitGraph())
		}
		if cancelKey == "" {
			cancelKey = fc.key
		}
	}
	perKey := map[string][]*connRec{}
	for _, cr := range cs {
		if cr.key != "" {
			perKey[cr.key] = append(perKey[cr.key], cr)
		}
	}
	for key, list := range perKey {
		// isolation and order: the concatenation over epochs is an in-order,
		// duplicate-free subsequence of the key's input
		in := inputs[key]
		pos := 0
		for _, cr := range list {
			for _, m := range cr.read {
				if !strings.HasSuffix(m, "-"+key) {
					e.Violate(prop, "wrong-connection", "demux.go:Run", "logical connection %d (key %s) was handed envelope %s of another key", cr.idx, key, m)
					continue
				}
				found := false
				for pos < len(in) {
					if in[pos] == m {
						found = true
						pos++
						break
					}
					pos++
				}
				if !found {
					e.Violate(prop, "order-or-duplicate", "demux.go:Run", "logical connection %d (key %s) read %s out of order or twice", cr.idx, key, m)
				}
			}
		}
		maxConns := 1
		if key == cancelKey {
			maxConns = 1 + max(p.Cancels, 1) // every Cancel may end one epoch of the key
		}
		if len(list) > maxConns {
			e.Violate(prop, "announced-twice", "demux.go:newConnLocked", "key %s was announced %d times (cancelled: %v)", key, len(list), key == cancelKey)
		}
	}
	// completeness: a key that was never cancelled, whose connection reads everything
	if !stopped {
		for key, in := range inputs {
			if key == cancelKey {
				continue
			}
			list := perKey[key]
			if len(list) == 0 {
				// its connection never read (policy 0) or Run is blocked behind another never-reading one
				continue
			}
			cr := list[0]
			allReaders := true
			for _, c2 := range cs {
				if c2.idx < len(p.Reads) && p.Reads[c2.idx] >= 0 {
					allReaders = false
				}
			}
			if cr.idx < len(p.Reads) && p.Reads[cr.idx] < 0 && allReaders && len(cr.read) != len(in) {
				e.Violate(prop, "lost", "demux.go:Run", "key %s: %d envelopes were fed, its logical connection read %d although every consumer keeps reading\n%s", key, len(in), len(cr.read), e.WaitGraph())
			}
		}
	}
	// writes: unchanged, exactly once, on the shared transport
	shared := map[string]int{}
	b.Out.mu.Lock()
	for _, tp := range b.Out.Tap {
		shared[string(tp.Rpc.GetBody().GetData())]++
		if tp.Rpc.GetHeader().GetMethod() != "/raw/W" || tp.Rpc.GetHeader().GetSource() != "demuxed" {
			e.Violate(prop, "write-altered", "demux.go:newConnLocked", "an envelope written on a logical connection reached the shared transport altered")
		}
	}
	b.Out.mu.Unlock()
	for _, cr := range cs {
		for _, w := range cr.wrote {
			if shared[w] != 1 && !stopped && cr.key != cancelKey && w != failedPayload {
				e.Violate(prop, "write-lost-or-duplicated", "demux.go:newConnLocked", "envelope %s written on logical connection %d appears %d times on the shared transport", w, cr.idx, shared[w])
			}
			if shared[w] > 1 {
				e.Violate(prop, "write-duplicated", "demux.go:newConnLocked", "envelope %s appears %d times on the shared transport", w, shared[w])
			}
		}
	}
	// after Cancel(key): reads and writes on its logical connection fail instead of blocking
	if cancelDone {
		for _, cr := range perKey[cancelKey] {
			// only the connection that existed when Cancel ran (a later use of
			// the key legitimately creates a fresh one, which may be waiting)
			if !cr.finished && cancelEv != 0 && cr.annEv < cancelEv && len(cr.read) > 0 && readBefore(e, cr.idx, cancelEv) {
				e.Violate(prop, "blocked-after-cancel", "demux.go:Cancel", "the consumer of logical connection %d (cancelled key %s) is still blocked in a read or write after settle\n%s", cr.idx, cancelKey, e.WaitGraph())
			}
		}
	}
	// ... and fail they do, every time: writes on the connection that Cancel ended
	// (attempted now, long after Cancel returned) are refused, none is accepted
	if cancelDone && !stopped && cancelEv != 0 {
		for _, cr := range perKey[cancelKey] {
			if cr.rw == nil || cr.annEv >= cancelEv {
				continue
			}
			accepted := 0
			e.Call(fmt.Sprintf("probe.write-after-cancel%d", cr.idx), func() {
				for i := 0; i < 6; i++ {
					e.Pt("probe.write")
					pctx, pcancel := context.WithTimeout(context.Background(), time.Second)
					err := cr.rw.Write(pctx, &Rpc{Id: uint64(900000 + i), Header: &goatorepo.RequestHeader{Method: "/late/Write", Source: ServerID, Destination: cancelKey}})
					pcancel()
					if err == nil {
						accepted++
					}
				}
			})
			if accepted > 0 {
				e.Violate(prop, "write-accepted-after-cancel", "demux.go:connReadWriter", "%d of 6 writes on logical connection %d were accepted although Cancel(%s) had ended it long before", accepted, cr.idx, cancelKey)
			}
			e.Note("demux.write-after-cancel-probed")
			break
		}
	}
	// a key used again after its Cancel returned is a first use again: the
	// envelopes fed after that point reach a freshly announced connection.
	// Decidable when nothing was stopped and every consumer keeps reading (so
	// Run is never parked behind a connection nobody drains).
	if cancelDone && cancelEv != 0 && !stopped {
		allReaders := true
		for _, c2 := range cs {
			if c2.idx < len(p.Reads) && p.Reads[c2.idx] >= 0 {
				allReaders = false
			}
		}
		var late []string
		for i, k := range p.Seq {
			if i >= fed || i >= len(feedStart) {
				break
			}
			if keyName(k%p.Keys) == cancelKey && feedStart[i] > cancelEv {
				late = append(late, fmt.Sprintf("in-%d-k%d", i, k%p.Keys))
			}
		}
		if allReaders && len(late) > 0 {
			e.Note("cancel.key-reused")
			fresh := 0
			got := map[string]bool{}
			for _, cr := range perKey[cancelKey] {
				if cr.annEv > cancelEv {
					fresh++
				}
				for _, m := range cr.read {
					got[m] = true
				}
			}
			if fresh == 0 {
				e.Violate(prop, "not-reannounced-after-cancel", "demux.go:Run", "%d envelope(s) of key %s were fed after Cancel(%s) had returned, but no new logical connection was announced for the key (first: %s)\n%s", len(late), cancelKey, cancelKey, late[0], e.WaitGraph())
			} else {
				for _, m := range late {
					if !got[m] {
						e.Violate(prop, "lost-after-cancel", "demux.go:Run", "envelope %s of key %s, fed after Cancel had returned, was never handed to a logical connection although every consumer keeps reading", m, cancelKey)
						break
					}
				}
			}
		}
	}
	if p.Gated && gatedWant > 0 {
		e.Note("demux.gated-consumer")
		histMu.Lock()
		gr := gatedRead
		histMu.Unlock()
		if gr < gatedWant {
			e.Violate(prop, "starved-behind-another-key", "demux.go:Run", "the consumers read the other keys first and the first key last: %d of %d envelopes of the other keys were handed over, the rest wait behind an envelope of the first key that Run is still holding\n%s", gr, gatedWant, e.WaitGraph())
		}
	}
	if stopped && !runReturned {
		e.Violate(prop, "run-ignores-stop", "demux.go:Run", "Stop was called but Run has not returned after settle\n%s", e.WaitGraph())
	}
}

// readBefore: did logical connection idx read something before event ev (so
// that its key is known to be the cancelled one at the time of the Cancel)?
func readBefore(e *Env, idx, ev int) bool {
	histMu.Lock()
	defer histMu.Unlock()
	for _, h := range e.Hist {
		if h.Kind == "conn.read" && h.Call == idx && h.N < ev {
			return true
		}
	}
	return false
}

func init() {
	Register(&Family{Name: "c18.demux", ShrinkKeys: []string{"seq", "cancel_at", "stop_at"}, Props: []string{"C18"}, New: func() any { return &DemuxParams{} }, Gen: genDemux, Exec: execDemux,
		Faulty: true, FaultKinds: []string{"demux.cancel", "demux.stop"}})
	// c18.order: all consumption orders of the logical connections - here the order
	// "every other key first, the first key last", every consumer reading all it gets
	Register(&Family{Name: "c18.order", ShrinkKeys: []string{"seq"}, Props: []string{"C18"}, New: func() any { return &DemuxParams{} }, Exec: execDemux,
		Gen: func(g *rand.Rand, tier string) any {
			p := genDemux(g, tier).(*DemuxParams)
			p.CancelKey, p.StopAt, p.Cancels = -1, -1, 0
			p.Keys = 2 + g.IntN(4)
			for i := range p.Seq {
				p.Seq[i] = g.IntN(p.Keys)
			}
			for i := range p.Reads {
				p.Reads[i] = -1
				p.Writes[i] = 0
			}
			p.Gated = true
			return p
		},
		Faulty: false})
	// c18.wfail: the shared transport refuses one envelope and stays usable (an
	// envelope it cannot encode, a size limit, an HTTP POST answered with an error)
	Register(&Family{Name: "c18.wfail", ShrinkKeys: []string{"seq"}, Props: []string{"C18"}, New: func() any { return &DemuxParams{} }, Exec: execDemux,
		Gen: func(g *rand.Rand, tier string) any {
			p := genDemux(g, tier).(*DemuxParams)
			p.CancelKey, p.StopAt, p.Cancels = -1, -1, 0
			for i := range p.Reads {
				if p.Reads[i] < 0 || g.IntN(2) == 0 {
					p.Reads[i] = 1 + g.IntN(3)
				}
				p.Writes[i] = 1 + g.IntN(4)
			}
			p.WFail = 1 + g.IntN(6)
			return p
		},
		Faulty: true, FaultKinds: []string{"link.writeFail"}})
}
