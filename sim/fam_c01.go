package verifsim

import (
	"bytes"
	"fmt"
	"math/rand/v2"
)

// C01: unary request/reply pairing under concurrency.

type Caller struct {
	Conn  int   `json:"conn"`
	Calls []int `json:"calls"`
}

type C01Params struct {
	Topo    TopoSpec    `json:"topo"`
	Calls   []*CallSpec `json:"calls"`
	Callers []Caller    `json:"callers"`
}

// callerName is stable under deletion of other callers (minimisation).
func callerName(i int, cl Caller) string {
	if len(cl.Calls) > 0 {
		return fmt.Sprintf("caller.c%d", cl.Calls[0])
	}
	return fmt.Sprintf("caller.idle%d", i)
}

var payloadSizes = []int{0, 1, 12, 100, 4096, 65536}

func drawSize(g *rand.Rand) int {
	switch g.IntN(10) {
	case 0:
		return payloadSizes[g.IntN(len(payloadSizes))]
	case 1:
		return g.IntN(65537)
	case 2:
		return g.IntN(2000)
	default:
		return g.IntN(64)
	}
}

func drawLinks(g *rand.Rand, n int) []LinkCfg {
	out := make([]LinkCfg, n)
	for i := range out {
		c := LinkCfg{}
		switch g.IntN(4) {
		case 0:
			c.Cap = 0
		case 1:
			c.Cap = 1 + g.IntN(4)
		default:
			c.Cap = -1
		}
		c.Serialise = g.IntN(2) == 0
		c.Strict = g.IntN(2) == 0
		out[i] = c
	}
	return out
}

func genC01(g *rand.Rand, tier string) any {
	p := &C01Params{}
	p.Topo.Kind = g.IntN(numTopos)
	p.Topo.Clients = 1
	if p.Topo.Kind >= TopoDemux {
		p.Topo.Clients = 1 + g.IntN(3)
	}
	if p.Topo.Kind == TopoDirect && g.IntN(2) == 0 {
		// one Server object serving several connections, each over its own transport
		p.Topo.Clients = 2 + g.IntN(2)
	}
	p.Topo.Links = drawLinks(g, 2+2*p.Topo.Clients+2)
	maxK := 64
	if p.Topo.Kind == TopoProxy || p.Topo.Kind == TopoProxyDemux {
		maxK = 12 // C16's stated precondition: at most 12 envelopes outstanding per destination
	}
	var k int
	switch g.IntN(4) {
	case 0:
		k = 1 + g.IntN(3)
	case 1:
		k = 9 + g.IntN(8) // more than the eight workers
	case 2:
		k = 1 + g.IntN(maxK)
	default:
		k = 2 + g.IntN(10)
	}
	if k > maxK {
		k = maxK
	}
	id := 1
	for c := 0; c < k; c++ {
		cl := Caller{Conn: g.IntN(p.Topo.Clients)}
		nc := 1
		if g.IntN(3) == 0 {
			nc = 1 + g.IntN(4)
		}
		for j := 0; j < nc; j++ {
			spec := &CallSpec{ID: id, Kind: KUnary, Conn: cl.Conn, ReqLen: drawSize(g), RespLen: drawSize(g)}
			if spec.ReqLen >= 10 && g.IntN(4) == 0 {
				spec.NoTag = true // handler identified by the payload alone
			}
			p.Calls = append(p.Calls, spec)
			cl.Calls = append(cl.Calls, id)
			id++
		}
		p.Callers = append(p.Callers, cl)
	}
	return p
}

func execC01(e *Env, pp any) {
	p := pp.(*C01Params)
	sim := NewSim(e)
	for _, c := range p.Calls {
		sim.Add(c)
	}
	inflight, maxInflight := 0, 0
	sim.OnHandlerStart = func(r *CallRec) {
		histMu.Lock()
		inflight++
		if inflight > maxInflight {
			maxInflight = inflight
		}
		histMu.Unlock()
	}
	srv := sim.NewServer()
	net := Build(e, p.Topo, srv, nil)
	for i, cl := range p.Callers {
		cl := cl
		e.Go(callerName(i, cl), func() {
			for _, id := range cl.Calls {
				sim.RunCall(net.CCs[cl.Conn%len(net.CCs)], sim.Calls[id])
			}
		})
	}
	reason := e.Settle()
	e.Note("topo." + topoNames[p.Topo.Kind])
	if reason == Crashed {
		return // reported through crash violations
	}
	if reason == StepLimit {
		e.Note("step_limit")
		return
	}
	checkUnaryPairing(e, sim, "C01")
	if maxInflight > 8 {
		e.Note("unary.inflight>8")
	}
	// out-of-order completion probe
	prev := 0
	for _, id := range sim.Order {
		r := sim.Calls[id]
		if r.ReturnEv < prev {
			e.Note("unary.out-of-order")
			break
		}
		prev = r.ReturnEv
	}
	for _, c := range p.Calls {
		if c.ReqLen == 0 {
			e.Note("req.empty")
		}
		if c.RespLen == 0 {
			e.Note("resp.empty")
		}
		if c.ReqLen >= 65536 {
			e.Note("req.64k")
		}
		if c.RespLen >= 65536 {
			e.Note("resp.64k")
		}
	}
	if len(p.Calls) >= 2 {
		e.Note("nontrivial")
	}
}

// checkUnaryPairing is oracle C01 (a),(b),(c) over all unary calls of sim
// whose handler is expected to succeed.
func checkUnaryPairing(e *Env, sim *Sim, prop string) {
	for _, id := range sim.Order {
		r := sim.Calls[id]
		if r.Spec.Kind != KUnary {
			continue
		}
		site := "unary"
		if !r.Started {
			continue // no caller task runs this call (minimised scenario)
		}
		if !r.Returned {
			e.Violate(prop, "hang", site, "call %d: Invoke has not returned after settle\n%s", id, e.WaitGraph())
			continue
		}
		if r.HInvoked != 1 {
			e.Violate(prop, "handler-count", site, "call %d: handler ran %d times", id, r.HInvoked)
		}
		if r.HInvoked >= 1 && !bytes.Equal(r.HReq, r.Spec.Req) {
			e.Violate(prop, "request-mismatch", site, "call %d: handler saw %d bytes, caller sent %d", id, len(r.HReq), len(r.Spec.Req))
		}
		if r.Spec.HStatus != nil || r.Spec.BadReply != 0 {
			continue
		}
		if r.InvokeErr != nil {
			e.Violate(prop, "unexpected-error", site, "call %d: Invoke returned %v", id, r.InvokeErr)
			continue
		}
		if !bytes.Equal(r.InvokeResp, r.Spec.Resp) {
			c, d, _, ok := payloadTag(r.InvokeResp)
			e.Violate(prop, "reply-mismatch", site, "call %d: got %d bytes (tag call=%d dir=%c ok=%v), want %d bytes", id, len(r.InvokeResp), c, d, ok, len(r.Spec.Resp))
		}
	}
}

func init() {
	Register(&Family{
		Name:  "c01.unary",
		ShrinkKeys: []string{"callers"},
		Props: []string{"C01"},
		New:   func() any { return &C01Params{} },
		Gen:   genC01,
		Exec:  execC01,
	})
}
