package verifsim

import (
	"bytes"
	"fmt"
	"io"
	"math/rand/v2"
	"strings"
)

// C16 (b): the RPC workloads of C01-C04 through a proxy (clients - proxy -
// Demux keyed by source - one Serve per client), within the stated credit.
func genC16RPC(g *rand.Rand, tier string) any {
	p := genMix(Bias{Streams: 60, Errors: 25, Metadata: 30, MaxMsgs: 3, MaxCalls: 2})(g, tier).(*MixParams)
	p.Topo.Kind = []int{TopoProxy, TopoProxyDemux}[g.IntN(2)]
	p.Topo.Clients = 1
	if p.Topo.Kind == TopoProxyDemux {
		p.Topo.Clients = 1 + g.IntN(3)
	}
	for i := range p.Callers {
		p.Callers[i].Conn = g.IntN(p.Topo.Clients)
		for _, id := range p.Callers[i].Calls {
			for _, c := range p.Calls {
				if c.ID == id {
					c.Conn = p.Callers[i].Conn
				}
			}
		}
	}
	p.Topo.Links = drawLinks(g, 2+2*p.Topo.Clients+2)
	// bounded links would need class-B programs; the mix above was drawn for
	// either class at random, so keep the links unbounded
	for i := range p.Topo.Links {
		p.Topo.Links[i].Cap = -1
	}
	return p
}

func execC16RPC(e *Env, pp any) {
	n0 := 0
	execMix(e, pp)
	drops := e.W.EventCount("proxy.go:forwardRpc:select#0:default")
	histMu.Lock()
	for i := n0; i < len(e.Violations); i++ {
		v := &e.Violations[i]
		switch v.Property {
		case "C01", "C02", "C03", "C04":
			v.Class = "rpc-through-proxy:" + v.Property + ":" + v.Class
			v.Property = "C16"
			if drops > 0 {
				v.Site = "proxy.go:forwardRpc:select#0:default"
			}
		}
	}
	histMu.Unlock()
	if drops > 0 {
		e.Note("proxy.drop")
	}
}

// C16 (c): burst above the proxy's per-destination buffer.
type C16BurstParams struct {
	Links  []LinkCfg `json:"links"`
	N      int       `json:"n"`      // messages the handler streams
	Stall  int       `json:"stall"`  // driver steps during which the proxy->client link is stalled
	Kind   int       `json:"kind"`
}

func genC16Burst(g *rand.Rand, tier string) any {
	p := &C16BurstParams{Links: drawLinks(g, 6), N: 50 + g.IntN(151), Stall: 50 + g.IntN(3000), Kind: []int{KSStream, KBidi}[g.IntN(2)]}
	for i := range p.Links {
		p.Links[i].Cap = -1
	}
	// the proxy -> client hop has little buffering: while it is stalled the
	// proxy's writer blocks and its 16-slot buffer for that destination fills
	p.Links[1].Cap = g.IntN(3)
	return p
}

func execC16Burst(e *Env, pp any) {
	p := pp.(*C16BurstParams)
	if p.N <= 0 {
		return
	}
	sim := NewSim(e)
	c := &CallSpec{ID: 1, Kind: p.Kind, MsgLen: 12, CSendN: 1, HSendN: p.N}
	if c.Kind != KSStream && c.Kind != KBidi {
		c.Kind = KSStream
	}
	c.CProg = []Op{{K: 's'}, {K: 'c'}, {K: 'R'}}
	c.HProg = []Op{{K: 'r'}, {K: 's', N: p.N}}
	r := sim.Add(c)
	srv := sim.NewServer()
	net := Build(e, TopoSpec{Kind: TopoProxy, Clients: 1, Links: p.Links}, srv, nil)
	toClient := net.CEnds[0].In // proxy -> client
	e.Go("caller.c1", func() { sim.RunCall(net.CCs[0], r) })
	// let the call start, then stall the destination's link for a while
	if rr := e.Drive(func() bool { return r.HInvoked > 0 }); rr == Crashed || rr == StepLimit {
		return
	}
	toClient.Stall()
	e.Note("fault.link.stall")
	s0 := e.Step
	e.NoAutoAdvance = true
	e.Drive(func() bool { return e.Step-s0 >= p.Stall })
	e.NoAutoAdvance = false
	toClient.Unstall()
	if rr := e.Settle(); rr == Crashed || rr == StepLimit {
		return
	}
	e.Note("nontrivial")
	drops := e.W.EventCount("proxy.go:forwardRpc:select#0:default")
	if drops > 0 {
		e.Note("proxy.drop")
	}
	const prop = "C16"
	// Whatever was dropped, what does arrive arrives once and in order: the
	// received messages are an in-order subsequence of the sent ones. (Losses are
	// judged below; a reordering or a duplicate is never explained by a drop.)
	histMu.Lock()
	gotSoFar := append([][]byte(nil), r.CGot...)
	histMu.Unlock()
	lastSeq := -1
	for i, m := range gotSoFar {
		cc, d, sq, ok := payloadTag(m)
		if !ok || cc != c.ID || d != 'h' || sq >= r.HSent || !bytes.Equal(m, sim.hmsg(c, sq)) {
			e.Violate(prop, "altered", "proxy.burst", "message #%d received through the proxy is not one the handler sent (tag call=%d dir=%c seq=%d ok=%v)", i, cc, d, sq, ok)
			break
		}
		if sq <= lastSeq {
			e.Violate(prop, "reordered-or-duplicated", "proxy.burst", "message seq=%d arrived after seq=%d (received #%d of a %d-message burst; %d overflow events at the proxy)", sq, lastSeq, i, r.HSent, drops)
			break
		}
		lastSeq = sq
	}
	if !r.Returned {
		// a dropped trailer leaves the receiver waiting: not "reported complete"
		if drops > 0 {
			e.Note("burst.incomplete-after-drop")
			return
		}
		e.Violate(prop, "hang", "burst", "the relayed stream never finished although nothing was dropped\n%s", e.WaitGraph())
		return
	}
	gap := false
	for i, m := range r.CGot {
		if !bytes.Equal(m, sim.hmsg(c, i)) {
			gap = true
			break
		}
	}
	if len(r.CGot) != r.HSent {
		gap = true
	}
	if r.CFinalSet && r.CFinal == io.EOF && gap {
		cls, site := "unexplained-loss", "proxy"
		if drops > 0 {
			cls, site = "stream-complete-with-gap", "proxy.go:forwardRpc:select#0:default"
		}
		e.Violate(prop, cls, site, "the relayed stream was reported complete (io.EOF) to its receiver with %d of %d messages (first gap at or before message %d); the proxy counted %d overflow drops", len(r.CGot), r.HSent, firstGap(sim, c, r), drops)
	}
}

func firstGap(sim *Sim, c *CallSpec, r *CallRec) int {
	for i, m := range r.CGot {
		if !bytes.Equal(m, sim.hmsg(c, i)) {
			return i
		}
	}
	return len(r.CGot)
}

var _ = fmt.Sprint
var _ = strings.Contains

func init() {
	Register(&Family{Name: "c16.rpc", ShrinkKeys: []string{"callers"}, Props: []string{"C16"}, New: func() any { return &MixParams{} }, Gen: genC16RPC, Exec: execC16RPC})
	Register(&Family{Name: "c16.burst", ShrinkKeys: []string{"n", "stall"}, Props: []string{"C16"}, New: func() any { return &C16BurstParams{} }, Gen: genC16Burst, Exec: execC16Burst,
		Faulty: true, FaultKinds: []string{"link.stall"}})
}

// C18 (b): RPC workloads from several logical clients over one shared
// transport, demultiplexed by source, served by one Server object.
func genC18RPC(g *rand.Rand, tier string) any {
	p := genMix(Bias{Streams: 60, Errors: 25, Metadata: 20, MaxMsgs: 5, MaxCalls: 8})(g, tier).(*MixParams)
	p.Topo.Kind = TopoDemux
	p.Topo.Clients = 1 + g.IntN(4)
	for i := range p.Callers {
		p.Callers[i].Conn = g.IntN(p.Topo.Clients)
		for _, id := range p.Callers[i].Calls {
			for _, c := range p.Calls {
				if c.ID == id {
					c.Conn = p.Callers[i].Conn
				}
			}
		}
	}
	p.Topo.Links = drawLinks(g, 2+2*p.Topo.Clients+2)
	for i := range p.Topo.Links {
		p.Topo.Links[i].Cap = -1
	}
	return p
}

func execC18RPC(e *Env, pp any) {
	execMix(e, pp)
	histMu.Lock()
	for i := range e.Violations {
		v := &e.Violations[i]
		switch v.Property {
		case "C01", "C02", "C03", "C04":
			v.Class = "rpc-through-demux:" + v.Property + ":" + v.Class
			v.Property = "C18"
		}
	}
	histMu.Unlock()
}

func init() {
	Register(&Family{Name: "c18.rpc", ShrinkKeys: []string{"callers"}, Props: []string{"C18"}, New: func() any { return &MixParams{} }, Gen: genC18RPC, Exec: execC18RPC})
}
