package verifsim

import (
	"math/rand/v2"

	"google.golang.org/grpc/status"
)

// c06.badreply: unary handlers whose reply cannot be put on the wire - a message the
// codec refuses (a proto3 string field that is not valid UTF-8), or no reply at all
// together with a nil error (what an interceptor that swallows the reply returns).
// The response still has to be a response: header, trailer and a body or a non-OK
// status (C06); the caller is told a failure, and the calls around it are not affected.

func genC06Bad(g *rand.Rand, tier string) any {
	p := genMix(Bias{Streams: 30, Errors: 10, Metadata: 10, MaxMsgs: 4, MaxCalls: 6})(g, tier).(*MixParams)
	n := 0
	for _, c := range p.Calls {
		if c != nil && c.Kind == KUnary && c.HStatus == nil && g.IntN(2) == 0 {
			c.BadReply = 1 + g.IntN(2)
			n++
		}
	}
	if n == 0 {
		// make the first call one
		c := p.Calls[0]
		*c = CallSpec{ID: c.ID, Conn: c.Conn, Kind: KUnary, ReqLen: 12, RespLen: 12, BadReply: 1 + g.IntN(2)}
	}
	return p
}

func execC06Bad(e *Env, pp any) {
	p := pp.(*MixParams)
	sim := NewSim(e)
	for _, c := range p.Calls {
		if c != nil {
			sim.Add(c)
		}
	}
	obs := newSideObs(e, SideOpts{})
	srv := sim.NewServer()
	net := Build(e, p.Topo, srv, obs.clientOpts)
	for i, cl := range p.Callers {
		cl := cl
		e.Go(callerName(i, cl), func() {
			for _, id := range cl.Calls {
				if r := sim.Calls[id]; r != nil {
					sim.RunCall(net.CCs[cl.Conn%len(net.CCs)], r)
				}
			}
		})
	}
	reason := e.Settle()
	if reason == Crashed {
		return
	}
	if reason == StepLimit {
		e.Note("step_limit")
		return
	}
	e.Note("nontrivial")
	run := &MixRun{E: e, P: p, Sim: sim, Net: net, Obs: obs}
	checkUnaryPairing(e, sim, "C01")
	checkWire(run, false)
	for _, id := range sim.Order {
		r := sim.Calls[id]
		if r.Spec.BadReply == 0 || !r.Started {
			continue
		}
		site := []string{"", "unary.unencodable-reply", "unary.nil-reply"}[r.Spec.BadReply]
		e.Note("c06." + site)
		if !r.Returned {
			e.Violate("C06", "hang", site, "call %d has not returned\n%s", id, e.WaitGraph())
			continue
		}
		if r.InvokeErr == nil {
			e.Violate("C06", "success-without-reply", site, "call %d: the handler's reply could not be sent, the caller observed success", id)
		} else if st, ok := status.FromError(r.InvokeErr); !ok || st.Code() == 0 {
			e.Violate("C06", "unary-response-shape", "server", "call %d (%s): the caller could not make a status of the response: %v", id, site, r.InvokeErr)
		}
	}
}

func init() {
	Register(&Family{Name: "c06.badreply", Props: []string{"C06"}, New: func() any { return &MixParams{} }, Gen: genC06Bad, Exec: execC06Bad, ShrinkKeys: []string{"callers"}})
}
