package verifsim

import (
	"encoding/json"
	"fmt"
	"math/rand/v2"
	"runtime"
	"strings"
	"testing"
	"testing/synctest"
	"time"

	"github.com/avos-io/goat/internal/simhook"
)

// Family is a class of scenarios: generation from a PRNG into plain-data
// parameters, and execution of those parameters inside a bubble.
type Family struct {
	Name  string
	Props []string // properties whose oracles this family feeds
	New   func() any
	Gen   func(g *rand.Rand, tier string) any
	// GenAt, if set, is used instead of Gen: it also gets the run's global index,
	// so that a family can enumerate a bounded space before it samples.
	GenAt func(idx uint64, g *rand.Rand, tier string) any
	Exec  func(e *Env, p any)
	// ShrinkKeys: top-level keys of the parameter object that the minimiser may
	// reduce (arrays: drop elements; numbers: make smaller). Everything else -
	// in particular the programs inside a call - is left alone, so that a
	// minimised scenario stays inside the domain the family's oracles are sound
	// for (e.g. deleting the receive loop of a client program would turn a valid
	// workload into a caller that never reads: flow control, not a defect).
	ShrinkKeys []string
	// Faulty families inject faults; the rest are fault-free run classes.
	Faulty bool
	// FaultKinds lists the fault kinds this family can inject.
	FaultKinds []string
}

var families = map[string]*Family{}
var familyOrder []string

func Register(f *Family) {
	families[f.Name] = f
	familyOrder = append(familyOrder, f.Name)
}

// RunResult is what one simulated run produced.
type RunResult struct {
	Family      string         `json:"family"`
	Seed        uint64         `json:"seed"`
	Strategy    int            `json:"strategy"`
	Steps       int            `json:"steps"`
	Yields      int64          `json:"yields"`
	Tasks       int            `json:"tasks"`
	SimTime     time.Duration  `json:"sim_ns"`
	Fingerprint uint64         `json:"fp"`
	Violations  []Violation    `json:"violations,omitempty"`
	Crashes     []simhook.Crash `json:"crashes,omitempty"`
	Notes       map[string]int `json:"notes,omitempty"`
	Events      map[string]int `json:"events,omitempty"`
	Tape        []string       `json:"tape,omitempty"`
	Diverged    int            `json:"diverged,omitempty"`
	StepLimit   bool           `json:"step_limit,omitempty"`
	Leaked      []string       `json:"leaked,omitempty"`
	TeardownCrashes []simhook.Crash `json:"teardown_crashes,omitempty"`
	Unreg       int64          `json:"unregistered_yields,omitempty"`
	LockMiss    int64          `json:"lock_model_miss,omitempty"`
	HistTail    []Ev           `json:"hist_tail,omitempty"`
	WaitGraph   string         `json:"wait_graph,omitempty"`
	Infra       string         `json:"infra,omitempty"` // harness trouble (never a violation)
	NonTrivial  bool           `json:"nontrivial"`
}

// RunOpts control one execution.
type RunOpts struct {
	Record   bool
	Replay   []string
	Strategy int // -1: draw from seed
	KeepHist int
	MaxSteps int
	Free     bool // free-running (race detector) mode
}

// RunOne executes params of fam under seed inside a fresh bubble.
func RunOne(t *testing.T, fam *Family, params any, seed uint64, o RunOpts) (res *RunResult) {
	res = &RunResult{Family: fam.Name, Seed: seed}
	RunOneInto(t, fam, params, seed, o, res)
	return res
}

// RunOneInto fills res in place (the testing package ends a test in which the
// race detector fired with Goexit: the caller still has what was recorded).
func RunOneInto(t *testing.T, fam *Family, params any, seed uint64, o RunOpts, res *RunResult) {
	defer func() {
		if r := recover(); r != nil {
			msg := fmt.Sprint(r)
			if strings.Contains(msg, "deadlock: main bubble goroutine has exited") {
				// goroutines left behind in the bubble: leak oracles have
				// already looked at the task table; nothing more to do.
				return
			}
			res.Infra = "panic in harness: " + msg + "\n" + string(stack())
		}
	}()
	synctest.Test(t, func(t *testing.T) {
		e := newEnv(seed)
		e.Record = o.Record
		e.Replay = o.Replay
		if o.MaxSteps > 0 {
			e.MaxSteps = o.MaxSteps
		}
		if o.Strategy >= 0 {
			e.Strategy = o.Strategy
		} else {
			e.Strategy = e.sch.IntN(numStrats - 1) // run-to-block only on request
		}
		if o.Replay != nil {
			e.Strategy = StratRunToBlock
		}
		res.Strategy = e.Strategy
		e.initStrategy()
		if o.Free {
			e.Free = true
			simhook.ChaosCrash = func(site, value, stack string) {
				histMu.Lock()
				e.freeCrashes = append(e.freeCrashes, simhook.Crash{Task: site, Value: value, Stack: stack})
				histMu.Unlock()
			}
			simhook.SetChaos(seed)
		} else {
			e.W = simhook.NewWorld()
			e.W.OrderFn = e.order
			e.W.MapOrderFn = e.mapOrder
		}
		e.start = time.Now()
		defer simhook.EndWorld()

		func() {
			defer func() {
				if r := recover(); r != nil {
					res.Infra = "panic in harness (bubble main): " + fmt.Sprint(r) + "\n" + string(stack())
				}
			}()
			fam.Exec(e, params)
		}()

		res.SimTime = time.Since(e.start)
		res.Steps = e.Step
		res.StepLimit = e.StepLimitHit
		res.Fingerprint = e.Fingerprint()
		res.Crashes = e.Crashes()
		res.Notes = e.Notes
		res.Tape = e.Tape
		res.Diverged = e.Diverged
		res.NonTrivial = e.Notes["nontrivial"] > 0
		histMu.Lock()
		res.Violations = append([]Violation(nil), e.Violations...)
		if o.KeepHist > 0 {
			h := e.Hist
			if len(h) > o.KeepHist {
				h = h[len(h)-o.KeepHist:]
			}
			res.HistTail = append([]Ev(nil), h...)
		}
		histMu.Unlock()
		if len(res.Violations) > 0 || len(res.Crashes) > 0 {
			res.WaitGraph = e.WaitGraph()
		}
		_, res.Events = e.W.Events()
		ncr := len(res.Crashes)
		e.Teardown()
		res.Leaked = e.Leaked()
		if cs := e.Crashes(); len(cs) > ncr {
			res.TeardownCrashes = cs[ncr:]
		}
		var y, u, lm int64
		y, u, lm, res.Tasks = e.W.Stats()
		res.Yields, res.Unreg, res.LockMiss = y, u, lm
	})
}

func stack() []byte {
	b := make([]byte, 32<<10)
	return b[:runtime.Stack(b, false)]
}

// crashSite extracts a stable identifier (function name of the innermost goat
// frame) from a recorded panic stack.
func crashSite(c simhook.Crash) string {
	lines := strings.Split(c.Stack, "\n")
	for _, ln := range lines {
		if !strings.HasPrefix(ln, "github.com/avos-io/goat") {
			continue
		}
		if strings.Contains(ln, "/internal/simhook.") || strings.Contains(ln, "/verifsim.") {
			continue
		}
		fn := ln
		if i := strings.LastIndex(fn, "("); i > 0 {
			fn = fn[:i]
		}
		fn = strings.TrimPrefix(fn, "github.com/avos-io/goat")
		return strings.Trim(fn, "./")
	}
	return "unknown"
}

// CrashViolations turns recorded crashes into violations of prop.
func CrashViolations(prop string, res *RunResult) []Violation {
	var out []Violation
	for _, c := range res.Crashes {
		v := c.Value
		if len(v) > 200 {
			v = v[:200]
		}
		out = append(out, Violation{Property: prop, Class: "crash", Site: crashSite(c),
			Detail: fmt.Sprintf("panic in task %s: %s", c.Task, v)})
	}
	return out
}

func toJSON(v any) string {
	b, _ := json.Marshal(v)
	return string(b)
}
