package verifsim

import (
	"bytes"
	"context"
	"fmt"
	"math/rand/v2"
	"strconv"

	"github.com/avos-io/goat/gen/goatorepo"
	"google.golang.org/grpc"
	"google.golang.org/grpc/metadata"
	"google.golang.org/protobuf/types/known/wrapperspb"
)

// C05 (d),(e): id allocation under many concurrently starting callers and
// over long call histories on one connection.

type C05IdsParams struct {
	Links   []LinkCfg `json:"links"`
	Callers int       `json:"callers"` // started together (up to 64)
	PerCaller int     `json:"per_caller"`
	Streams bool      `json:"streams"` // every 4th call is a (tiny) stream
}

func genC05Ids(g *rand.Rand, tier string) any {
	p := &C05IdsParams{Links: drawLinks(g, 2)}
	p.Links[0].Cap, p.Links[1].Cap = -1, -1
	p.Callers = 1 + g.IntN(64)
	p.PerCaller = 1 + g.IntN(12)
	if tier == "thorough" && g.IntN(200) == 0 {
		// one connection, about 10^5 calls
		p.Callers = 16 + g.IntN(48)
		p.PerCaller = 100000 / p.Callers
	}
	p.Streams = g.IntN(2) == 0
	return p
}

func execC05Ids(e *Env, pp any) {
	p := pp.(*C05IdsParams)
	if p.Callers <= 0 || p.PerCaller <= 0 {
		return
	}
	sim := NewSim(e)
	// two calls in three tag their response header and trailer with their own
	// identity; the third sets none and must receive none (whatever a call
	// observes - message, header, trailer, status - is its own)
	setsHeader := func(tag string) bool { return len(tag) > 0 && (tag[len(tag)-1]-'0')%3 != 2 }
	sim.DefaultUnary = func(ctx context.Context, req []byte) ([]byte, error) {
		md, _ := metadata.FromIncomingContext(ctx)
		if v := md.Get("x-sim-seq"); len(v) > 0 && setsHeader(v[0]) {
			grpc.SetHeader(ctx, metadata.Pairs("x-owner", v[0]))
			grpc.SetTrailer(ctx, metadata.Pairs("x-owner-t", v[0]))
		}
		return append([]byte("re:"), req...), nil
	}
	srv := sim.NewServer()
	net := Build(e, TopoSpec{Kind: TopoDirect, Clients: 1, Links: p.Links}, srv, nil)
	out := net.CEnds[0].Out
	out.NoTap, net.CEnds[0].In.NoTap = true, true
	// ids as they go on the wire: first envelope of every call carries x-sim-seq
	seen := map[uint64]string{}
	dups := 0
	out.OnWritten(func(n int, r *Rpc) {
		tag := ""
		for _, kv := range r.GetHeader().GetHeaders() {
			if kv.GetKey() == "x-sim-seq" {
				tag = kv.GetValue()
			}
		}
		if tag == "" {
			return // later envelope of a stream
		}
		histMu.Lock()
		if prev, ok := seen[r.GetId()]; ok && prev != tag {
			dups++
			e.Violations = append(e.Violations, Violation{Property: "C05", Class: "id-reused", Site: "client",
				Detail: fmt.Sprintf("stream id %d was put on the wire for call %s and for call %s", r.GetId(), prev, tag)})
		}
		seen[r.GetId()] = tag
		histMu.Unlock()
	})
	foreignMD := 0
	net.CEnds[0].In.OnWritten(func(n int, r *Rpc) {
		histMu.Lock()
		defer histMu.Unlock()
		own, known := seen[r.GetId()]
		if !known {
			return
		}
		chk := func(where string, kvs []*goatorepo.KeyValue, key string) {
			for _, kv := range kvs {
				if kv.GetKey() != key {
					continue
				}
				if kv.GetValue() != own || !setsHeader(own) {
					foreignMD++
					if foreignMD <= 3 {
						e.Violations = append(e.Violations, Violation{Property: "C05", Class: "foreign-metadata", Site: "unary." + where,
							Detail: fmt.Sprintf("the reply to call %s (id %d) carries %s %s=%q, which belongs to another call", own, r.GetId(), where, key, kv.GetValue())})
					}
				}
			}
		}
		chk("header", r.GetHeader().GetHeaders(), "x-owner")
		chk("trailer", r.GetTrailer().GetMetadata(), "x-owner-t")
	})
	wrong := 0
	done := 0
	for c := 0; c < p.Callers; c++ {
		c := c
		e.Go(fmt.Sprintf("caller.c%d", c+1), func() {
			for k := 0; k < p.PerCaller; k++ {
				tag := strconv.Itoa(c) + "." + strconv.Itoa(k)
				ctx := metadata.AppendToOutgoingContext(context.Background(), "x-sim-seq", tag)
				req := []byte("req-" + tag)
				out := new(wrapperspb.BytesValue)
				e.Pt("c.call")
				err := net.CCs[0].Invoke(ctx, methodNames[KUnary], wrapperspb.Bytes(req), out)
				histMu.Lock()
				done++
				if err != nil || !bytes.Equal(out.GetValue(), append([]byte("re:"), req...)) {
					wrong++
					if wrong <= 3 {
						e.Violations = append(e.Violations, Violation{Property: "C05", Class: "cross-delivery", Site: "unary",
							Detail: fmt.Sprintf("call %s returned err=%v reply=%q", tag, err, out.GetValue())})
					}
				}
				histMu.Unlock()
				if k%64 == 0 {
					e.Log("c.ret", "", c, "")
				}
			}
		})
	}
	old := e.MaxSteps
	e.MaxSteps = 200000000
	reason := e.Settle()
	e.MaxSteps = old
	if reason == Crashed || reason == StepLimit {
		return
	}
	if done != p.Callers*p.PerCaller {
		e.Violate("C05", "hang", "unary", "%d of %d calls completed\n%s", done, p.Callers*p.PerCaller, e.WaitGraph())
	}
	e.Note("nontrivial")
	e.Notes["ids.calls"] += done
	if p.Callers >= 32 {
		e.Note("ids.callers>=32")
	}
	if done >= 50000 {
		e.Note("ids.history>=5e4")
	}
}

func init() {
	Register(&Family{Name: "c05.ids", ShrinkKeys: []string{"callers", "per_caller"}, Props: []string{"C05"}, New: func() any { return &C05IdsParams{} }, Gen: genC05Ids, Exec: execC05Ids})
}
