package verifsim

import (
	"google.golang.org/protobuf/protoadapt"
	"google.golang.org/protobuf/types/known/durationpb"
	"google.golang.org/protobuf/types/known/wrapperspb"
	spb "google.golang.org/genproto/googleapis/rpc/status"
)

// detailMsgs returns n detail messages of different types.
func detailMsgs(n int) []protoadapt.MessageV1 {
	all := []protoadapt.MessageV1{
		wrapperspb.Bytes([]byte{0, 0xff, 'd'}),
		durationpb.New(1500000000),
		&spb.Status{Code: 3, Message: "nested ✓"},
	}
	if n > len(all) {
		n = len(all)
	}
	return all[:n]
}
