package verifsim

import (
	"context"
	"reflect"
)

// ctxDescendants counts the cancellable contexts still registered, directly or
// indirectly, as children of ctx (WithCancel/WithDeadline/WithTimeout children and
// AfterFunc registrations that were neither cancelled nor stopped). It reads the
// standard library's context internals through reflection, read-only; -1 if the
// layout is not the expected one (then nothing is judged). Called only at quiescent
// points.
func ctxDescendants(ctx context.Context) int {
	if ctx == nil {
		return 0
	}
	cv, ok := cancelCtxOf(reflect.ValueOf(ctx))
	if !ok {
		return -1
	}
	return childrenOf(cv, 0)
}

// cancelCtxOf finds the cancelCtx struct inside a context value (pointer to
// cancelCtx, timerCtx, afterFuncCtx, or a valueCtx chain leading to one).
func cancelCtxOf(v reflect.Value) (reflect.Value, bool) {
	for depth := 0; depth < 64; depth++ {
		for v.Kind() == reflect.Interface || v.Kind() == reflect.Pointer {
			if v.IsNil() {
				return reflect.Value{}, false
			}
			v = v.Elem()
		}
		if v.Kind() != reflect.Struct {
			return reflect.Value{}, false
		}
		if f := v.FieldByName("children"); f.IsValid() && f.Kind() == reflect.Map {
			return v, true
		}
		if f := v.FieldByName("cancelCtx"); f.IsValid() {
			v = f
			continue
		}
		if f := v.FieldByName("Context"); f.IsValid() {
			v = f
			continue
		}
		return reflect.Value{}, false
	}
	return reflect.Value{}, false
}

func childrenOf(cv reflect.Value, depth int) int {
	if depth > 32 {
		return 0
	}
	ch := cv.FieldByName("children")
	if !ch.IsValid() || ch.Kind() != reflect.Map {
		return 0
	}
	n := ch.Len()
	it := ch.MapRange()
	for it.Next() {
		if sub, ok := cancelCtxOf(it.Key()); ok {
			n += childrenOf(sub, depth+1)
		}
	}
	return n
}
