package verifsim

import (
	"bytes"
	"context"
	"fmt"
	"io"
	"math/rand/v2"
	"strings"

	"github.com/avos-io/goat/gen/goatorepo"
	"google.golang.org/grpc"
	"google.golang.org/protobuf/proto"
	"google.golang.org/protobuf/types/known/anypb"
	"google.golang.org/protobuf/types/known/wrapperspb"
)

// C12 (second family): random field-level mutations of valid conversations.
// A conversation is 1..3 well-formed RPCs (unary, bidi, client-stream,
// server-stream) written envelope by envelope by a raw peer; 1..4 mutations
// then change single fields of single envelopes (or duplicate, drop or swap
// envelopes). The oracle is the part of C12 that holds for every envelope
// sequence whatsoever: nothing panics, Serve keeps serving, the two valid
// probes sent afterwards on fresh ids complete correctly, the unary handler
// only ever sees a payload some envelope carried, and every response is
// addressed to the peer.

type KVSpec struct {
	K    string `json:"k"`
	V    string `json:"v"`
	VPad int    `json:"vpad,omitempty"`
}

type EnvSpec struct {
	ID        uint64   `json:"id"`
	Header    bool     `json:"header"`
	Method    string   `json:"method,omitempty"`
	MethodPad int      `json:"method_pad,omitempty"`
	Source    string   `json:"source,omitempty"`
	Dest      string   `json:"dest,omitempty"`
	MD        []KVSpec `json:"md,omitempty"`
	Record    []string `json:"record,omitempty"`
	Next      []string `json:"next,omitempty"`
	Body      int      `json:"body"` // 0 absent, 1 valid payload, 2 Data nil, 3 Data empty, 4 garbage bytes, 5 truncated encoding, 6 large valid
	BodyLen   int      `json:"body_len,omitempty"`
	Status    bool     `json:"status"`
	Code      int32    `json:"code,omitempty"`
	Msg       string   `json:"msg,omitempty"`
	MsgPad    int      `json:"msg_pad,omitempty"`
	Details   int      `json:"details,omitempty"` // 1 valid Any, 2 Any with empty type url, 3 Any with garbage value, 4 nil entry
	Trailer   bool     `json:"trailer"`
	TMD       []KVSpec `json:"tmd,omitempty"`
	Reset     bool     `json:"reset"`
	ResetType string   `json:"reset_type,omitempty"`
	NilKV     bool     `json:"nil_kv,omitempty"` // a nil entry in the header's metadata list (possible on by-reference transports only)
	Mut       string   `json:"mut,omitempty"` // which mutation touched this envelope (for the report only)
}

type C12MutParams struct {
	Links []LinkCfg `json:"links"`
	Envs  []EnvSpec `json:"envs"`
}

func pad(s string, n int) string {
	if n <= 0 {
		return s
	}
	return s + strings.Repeat("x", n)
}

func kvs(in []KVSpec) []*goatorepo.KeyValue {
	var out []*goatorepo.KeyValue
	for _, kv := range in {
		out = append(out, &goatorepo.KeyValue{Key: kv.K, Value: pad(kv.V, kv.VPad)})
	}
	return out
}

func mutPayload(s EnvSpec, n int) []byte {
	if s.Body == 6 {
		b := bytes.Repeat([]byte{byte(n)}, s.BodyLen)
		return b
	}
	return []byte(fmt.Sprintf("mut-%d-%d", s.ID, n))
}

func buildEnv(s EnvSpec, n int) *Rpc {
	r := &Rpc{Id: s.ID}
	if s.Header {
		r.Header = &goatorepo.RequestHeader{Method: pad(s.Method, s.MethodPad), Source: s.Source, Destination: s.Dest, Headers: kvs(s.MD),
			ProxyRecord: s.Record, ProxyNext: s.Next}
		if s.NilKV {
			r.Header.Headers = append(r.Header.Headers, nil)
		}
	}
	switch s.Body {
	case 1, 6:
		r.Body = bytesBody(mutPayload(s, n))
	case 2:
		r.Body = &goatorepo.Body{}
	case 3:
		r.Body = &goatorepo.Body{Data: []byte{}}
	case 4:
		r.Body = &goatorepo.Body{Data: []byte{0xff, 0xff, 0xff, 0x07, 0x80, 0x80}}
	case 5:
		d := bytesBody(mutPayload(s, n)).Data
		r.Body = &goatorepo.Body{Data: d[:len(d)-2]}
	}
	if s.Status {
		st := &goatorepo.ResponseStatus{Code: s.Code, Message: pad(s.Msg, s.MsgPad)}
		switch s.Details {
		case 1:
			a, _ := anypb.New(wrapperspb.String("detail"))
			st.Details = []*anypb.Any{a}
		case 2:
			st.Details = []*anypb.Any{{TypeUrl: "", Value: []byte{1, 2, 3}}}
		case 3:
			st.Details = []*anypb.Any{{TypeUrl: "type.googleapis.com/google.protobuf.StringValue", Value: []byte{0xff, 0xff, 0xff}}}
		case 4:
			st.Details = []*anypb.Any{nil}
		}
		r.Status = st
	}
	if s.Trailer {
		r.Trailer = &goatorepo.Trailer{Metadata: kvs(s.TMD)}
	}
	if s.Reset {
		r.Reset_ = &goatorepo.Reset{Type: s.ResetType}
	}
	return r
}

// validConversation: the envelopes of one well-formed RPC of the given kind on id.
func validConversation(g *rand.Rand, kind int, id uint64) []EnvSpec {
	h := EnvSpec{ID: id, Header: true, Method: methodNames[kind], Source: "raw", Dest: ServerID}
	if g.IntN(3) == 0 {
		h.MD = []KVSpec{{K: "x-key", V: "value"}, {K: "data-bin", V: "AQID"}}
	}
	if kind == KUnary {
		u := h
		u.Body = 1
		return []EnvSpec{u}
	}
	out := []EnvSpec{h}
	n := g.IntN(4)
	if kind == KSStream {
		n = 1
	}
	for i := 0; i < n; i++ {
		b := h
		b.Body = 1
		out = append(out, b)
	}
	t := h
	t.Trailer = true
	if g.IntN(2) == 0 {
		t.Status = true
		t.Msg = "OK"
	}
	return append(out, t)
}

var mutNames = []string{"id", "header-nil", "method", "source", "dest", "md", "proxy-fields", "body", "status", "trailer", "reset", "dup", "drop", "swap", "strip"}

func mutateConv(g *rand.Rand, envs []EnvSpec, ids []uint64) []EnvSpec {
	if len(envs) == 0 {
		return envs
	}
	i := g.IntN(len(envs))
	e := &envs[i]
	m := mutNames[g.IntN(len(mutNames))]
	e.Mut += m + " "
	switch m {
	case "id":
		e.ID = []uint64{0, ids[g.IntN(len(ids))], ^uint64(0), 1 << 63, e.ID + 1, uint64(g.IntN(8))}[g.IntN(6)]
	case "header-nil":
		e.Header = false
	case "method":
		switch g.IntN(7) {
		case 0:
			e.Method = ""
		case 1:
			e.Method = "/"
		case 2:
			e.Method = methodNames[g.IntN(4)] // another RPC kind in mid-conversation
		case 3:
			e.MethodPad = 1 << (10 + g.IntN(8))
		case 4:
			e.Method = "//"
		case 5:
			e.Method = e.Method + "/"
		default:
			e.Method = strings.TrimPrefix(e.Method, "/")
		}
	case "source":
		e.Source = []string{"", "someone-else", ServerID, "raw/../x"}[g.IntN(4)]
	case "dest":
		e.Dest = []string{"", "someone-else", "raw", strings.ToUpper(ServerID)}[g.IntN(4)]
	case "md":
		var kv KVSpec
		switch g.IntN(10) {
		case 0:
			kv = KVSpec{K: []string{"bad-bin", "Bad-bin", "bad-Bin", "BAD-BIN"}[g.IntN(4)], V: "!!!not base64!!!"}
		case 1:
			kv = KVSpec{K: "", V: "empty key"}
		case 2:
			kv = KVSpec{K: "UPPER-Case", V: "v"}
		case 3:
			kv = KVSpec{K: "grpc-timeout", V: []string{"", "S", "99999999999999999999H", "1", "-1m", "1x", "٣S", "00000000S"}[g.IntN(8)]}
		case 4:
			kv = KVSpec{K: ":authority", V: "pseudo"}
		case 5:
			kv = KVSpec{K: "big", V: "v", VPad: 1 << (10 + g.IntN(8))}
		case 6:
			kv = KVSpec{K: "content-type", V: "application/grpc+weird"}
		case 7:
			kv = KVSpec{K: "grpc-encoding", V: "gzip"}
		case 8:
			kv = KVSpec{K: "key with space", V: "v\x00\n"}
		default:
			kv = KVSpec{K: "x-bin", V: ""}
		}
		if g.IntN(8) == 0 {
			e.NilKV = true
		}
		n := 1
		if g.IntN(6) == 0 {
			n = 200
		}
		for k := 0; k < n; k++ {
			if g.IntN(2) == 0 || e.Trailer == false {
				e.MD = append(e.MD, kv)
			} else {
				e.TMD = append(e.TMD, kv)
			}
		}
	case "proxy-fields":
		e.Record = []string{"a", "", "raw", ServerID}[:1+g.IntN(4)]
		e.Next = []string{ServerID, "", "nowhere"}[:1+g.IntN(3)]
	case "body":
		e.Body = g.IntN(7)
		if e.Body == 6 {
			e.BodyLen = 1 << (12 + g.IntN(9))
		}
	case "status":
		e.Status = !e.Status || g.IntN(2) == 0
		e.Code = []int32{0, 1, 13, 16, 17, 9999, -1, 1 << 30}[g.IntN(8)]
		e.Details = g.IntN(5)
		if g.IntN(4) == 0 {
			e.MsgPad = 1 << (10 + g.IntN(8))
		}
	case "trailer":
		e.Trailer = !e.Trailer
	case "reset":
		e.Reset = true
		e.ResetType = []string{"RST_STREAM", "", "rst_stream", "SOMETHING_ELSE"}[g.IntN(4)]
	case "dup":
		d := *e
		k := 1 + g.IntN(3)
		for ; k > 0; k-- {
			j := i + g.IntN(len(envs)-i+1)
			envs = append(envs[:j], append([]EnvSpec{d}, envs[j:]...)...)
		}
	case "drop":
		envs = append(envs[:i], envs[i+1:]...)
	case "swap":
		j := g.IntN(len(envs))
		envs[i], envs[j] = envs[j], envs[i]
	case "strip":
		// an envelope reduced to its id (and perhaps one sub-message)
		keep := g.IntN(4)
		s := EnvSpec{ID: e.ID, Mut: e.Mut}
		switch keep {
		case 1:
			s.Body = 1
		case 2:
			s.Trailer = true
		case 3:
			s.Status = true
		}
		*e = s
	}
	return envs
}

func genC12Mut(g *rand.Rand, tier string) any {
	p := &C12MutParams{Links: drawLinks(g, 2)}
	p.Links[0].Cap, p.Links[1].Cap = -1, -1
	nconv := 1 + g.IntN(3)
	var convs [][]EnvSpec
	var ids []uint64
	for c := 0; c < nconv; c++ {
		id := uint64(1 + c)
		if g.IntN(8) == 0 {
			id = uint64(1) << (20 + uint(c))
		}
		ids = append(ids, id)
		convs = append(convs, validConversation(g, g.IntN(4), id))
	}
	// interleave the conversations, each keeping its own order
	for {
		var live []int
		for i, c := range convs {
			if len(c) > 0 {
				live = append(live, i)
			}
		}
		if len(live) == 0 {
			break
		}
		i := live[g.IntN(len(live))]
		p.Envs = append(p.Envs, convs[i][0])
		convs[i] = convs[i][1:]
	}
	nm := 1 + g.IntN(4)
	if g.IntN(10) == 0 {
		nm = 0 // the unmutated conversation: everything must simply work
	}
	for k := 0; k < nm; k++ {
		p.Envs = mutateConv(g, p.Envs, ids)
	}
	return p
}

func execC12Mut(e *Env, pp any) {
	p := pp.(*C12MutParams)
	sim := NewSim(e)
	var unaryReqs [][]byte
	sim.DefaultUnary = func(ctx context.Context, req []byte) ([]byte, error) {
		histMu.Lock()
		unaryReqs = append(unaryReqs, append([]byte(nil), req...))
		histMu.Unlock()
		e.Log("h.unary", "", 0, "")
		e.Pt("h.reply")
		return append([]byte("echo:"), req...), nil
	}
	sim.DefaultStream = func(kind int, ss grpc.ServerStream) error {
		e.Log("h.stream", "", kind, "")
		n := 0
		for {
			e.Pt("h.recv")
			m := new(wrapperspb.BytesValue)
			if err := ss.RecvMsg(m); err != nil {
				if err == io.EOF {
					e.Pt("h.send")
					return ss.SendMsg(wrapperspb.Bytes([]byte(fmt.Sprintf("count=%d", n))))
				}
				return err
			}
			n++
		}
	}
	srv := sim.NewServer()
	byRef := false
	for _, s := range p.Envs {
		if s.NilKV {
			byRef = true // a nil list element cannot be serialised: only an in-process peer can send it
		}
	}
	lc := func(i int) LinkCfg {
		if i < len(p.Links) {
			c := p.Links[i]
			c.Cap = -1
			if byRef {
				c.Serialise = false
			}
			return c
		}
		return LinkCfg{Cap: -1}
	}
	a, b := e.NewConn("c0", lc(0), lc(1))
	net := &Net{E: e, Srv: srv}
	sr := net.startServe("serve0", b)
	rctx, rcancel := context.WithCancel(context.Background())
	e.OnTeardown(rcancel)
	var got []*Rpc
	e.Go("raw.reader", func() {
		for {
			r, err := a.Read(rctx)
			if err != nil {
				return
			}
			histMu.Lock()
			got = append(got, r)
			histMu.Unlock()
		}
	})
	// probe ids no envelope of the sequence uses
	used := map[uint64]bool{}
	for _, s := range p.Envs {
		used[s.ID] = true
	}
	probeU := uint64(1000)
	for used[probeU] || used[probeU+1] {
		probeU += 2
	}
	probeS := probeU + 1
	probePayload := []byte("probe-unary-payload")
	var sentUnary [][]byte
	for i, s := range p.Envs {
		r := buildEnv(s, i)
		// generous on purpose (the server, like grpc-go, tolerates a missing leading slash): an upper bound
		// ... but only envelopes addressed to the server's own name can run a handler
		if strings.Contains(r.GetHeader().GetMethod(), "Unary") && r.GetHeader().GetDestination() == ServerID {
			var pay []byte
			if r.Body != nil {
				m := new(wrapperspb.BytesValue)
				if proto.Unmarshal(r.Body.Data, m) != nil {
					continue
				}
				pay = m.Value
			}
			sentUnary = append(sentUnary, pay)
		}
	}
	e.Go("raw.writer", func() {
		for i, s := range p.Envs {
			e.Pt("raw.send")
			for _, m := range strings.Fields(s.Mut) {
				e.Note("mut." + m)
			}
			if s.NilKV {
				e.Note("mut.nil-metadata-entry")
			}
			e.Log("raw.env", "", int(s.ID%1000), s.Mut)
			if a.Write(rctx, buildEnv(s, i)) != nil {
				return
			}
		}
		e.Pt("raw.probe")
		h := &goatorepo.RequestHeader{Method: methodNames[KUnary], Source: "raw", Destination: ServerID}
		a.Write(rctx, &Rpc{Id: probeU, Header: h, Body: bytesBody(probePayload)})
		hs := &goatorepo.RequestHeader{Method: methodNames[KCStream], Source: "raw", Destination: ServerID}
		e.Pt("raw.probe")
		a.Write(rctx, &Rpc{Id: probeS, Header: hs})
		e.Pt("raw.probe")
		a.Write(rctx, &Rpc{Id: probeS, Header: hs, Body: bytesBody([]byte("one"))})
		e.Pt("raw.probe")
		a.Write(rctx, &Rpc{Id: probeS, Header: hs, Body: bytesBody([]byte("two"))})
		e.Pt("raw.probe")
		a.Write(rctx, &Rpc{Id: probeS, Header: hs, Status: &goatorepo.ResponseStatus{}, Trailer: &goatorepo.Trailer{}})
	})
	reason := e.Settle()
	e.Note("nontrivial")
	if reason == Crashed || reason == StepLimit {
		return
	}
	const prop = "C12"
	histMu.Lock()
	resp := append([]*Rpc(nil), got...)
	ureqs := append([][]byte(nil), unaryReqs...)
	histMu.Unlock()
	var pu, psBody, psTrailer *Rpc
	for _, r := range resp {
		switch r.GetId() {
		case probeU:
			pu = r
		case probeS:
			if r.GetTrailer() != nil {
				psTrailer = r
			} else if r.GetBody() != nil {
				psBody = r
			}
		}
	}
	want := bytesBody(append([]byte("echo:"), probePayload...)).Data
	if pu == nil {
		e.Violate(prop, "probe-unanswered", "unary", "the valid unary probe after the mutated conversation got no response (Serve returned: %v)\n%s", sr.Returned, e.WaitGraph())
	} else if pu.GetStatus().GetCode() != 0 || !bytes.Equal(pu.GetBody().GetData(), want) {
		e.Violate(prop, "probe-wrong", "unary", "the unary probe got status %v / %d body bytes", pu.GetStatus(), len(pu.GetBody().GetData()))
	}
	if psTrailer == nil {
		e.Violate(prop, "probe-unanswered", "stream", "the valid client-stream probe after the mutated conversation was not completed (Serve returned: %v)\n%s", sr.Returned, e.WaitGraph())
	} else if psTrailer.GetStatus().GetCode() != 0 || psBody == nil || !bytes.Equal(psBody.GetBody().GetData(), bytesBody([]byte("count=2")).Data) {
		e.Violate(prop, "probe-wrong", "stream", "the stream probe ended with status %v, reply %q", psTrailer.GetStatus(), psBody.GetBody().GetData())
	}
	if sr.Returned {
		e.Violate(prop, "serve-ended", "serve", "Serve returned (%v) although the transport is healthy: the server stopped serving", sr.Err)
	}
	// the unary handler only ever sees a payload that some unary envelope carried, at most once per envelope (plus the probe)
	pool := append([][]byte{probePayload}, sentUnary...)
	for _, rq := range ureqs {
		found := -1
		for i, c := range pool {
			if bytes.Equal(c, rq) {
				found = i
				break
			}
		}
		if found < 0 {
			e.Violate(prop, "unary-handler-fabricated-request", "unary", "the unary handler ran with a %d-byte request that no envelope addressed to the server carried (or more often than it was sent)", len(rq))
			break
		}
		pool = append(pool[:found], pool[found+1:]...)
	}
	for _, r := range resp {
		if r.GetHeader() != nil && r.GetHeader().GetDestination() != "raw" {
			// a response goes back where the request said it came from; only envelopes
			// whose source was mutated may be answered elsewhere
			ok := false
			for _, s := range p.Envs {
				if s.ID == r.GetId() && s.Source == r.GetHeader().GetDestination() {
					ok = true
				}
			}
			if !ok {
				e.Violate(prop, "response-misaddressed", "server", "response for id %d addressed to %q", r.GetId(), r.GetHeader().GetDestination())
			}
		}
	}
}

func init() {
	Register(&Family{Name: "c12.mutate", ShrinkKeys: []string{"envs"}, Props: []string{"C12"}, New: func() any { return &C12MutParams{} }, Gen: genC12Mut, Exec: execC12Mut,
		Faulty: true, FaultKinds: []string{"peer.mutated"}})
}
