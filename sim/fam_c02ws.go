package verifsim

import (
	"fmt"
	"io"
	"math/rand/v2"
	"time"

	goat "github.com/avos-io/goat"
)

// c02.ws: streams multiplexed on one ClientConn over the library's own WebSocket
// transport (real coder/websocket code over an in-memory pipe). One stream's handler
// returns success early while that stream's sender is inside the transport's Write
// (the handler never read, so the connection backed up); the other streams complete
// later and successfully. None of them may be reported failed.

type C02WSParams struct {
	N       int `json:"n"`        // messages the early stream's caller tries to send
	MsgLen  int `json:"msglen"`
	Victims int `json:"victims"`  // other streams on the connection
	M       int `json:"m"`        // messages each of their handlers sends
	Cancel  bool `json:"cancel"`  // instead of the handler returning, the early stream's caller cancels it
}

func genC02WS(g *rand.Rand, tier string) any {
	return &C02WSParams{N: 4 + g.IntN(6), MsgLen: []int{10, 2000, 30000}[g.IntN(3)], Victims: 1 + g.IntN(3), M: 1 + g.IntN(3), Cancel: g.IntN(3) == 0}
}

func execC02WS(e *Env, pp any) {
	p := pp.(*C02WSParams)
	c, s, ok := wsPair(e, true)
	if !ok {
		e.Note("ws.setup.failed")
		return
	}
	a, b := goat.NewGoatOverWebsocket(c), goat.NewGoatOverWebsocket(s)
	sim := NewSim(e)
	early := &CallSpec{ID: 1, Kind: KBidi, MsgLen: p.MsgLen, CSendN: p.N, Early: true}
	early.CProg = []Op{{K: 'f', A: []Op{{K: 's', N: p.N}, {K: 'c'}}, B: []Op{{K: 'R'}}}}
	early.HProg = []Op{{K: 'z', D: 500 * time.Millisecond}}
	if p.Cancel {
		early.HProg = []Op{{K: 'w'}}
		early.CProg = []Op{{K: 'f', A: []Op{{K: 's', N: p.N}}, B: []Op{{K: 'z', D: 500 * time.Millisecond}, {K: 'x'}}}}
	}
	er := sim.Add(early)
	var victims []*CallRec
	for i := 0; i < p.Victims; i++ {
		v := &CallSpec{ID: 10 + i, Kind: KSStream, MsgLen: 12, CSendN: 1, HSendN: p.M}
		v.CProg = []Op{{K: 's'}, {K: 'c'}, {K: 'R'}}
		v.HProg = []Op{{K: 'r'}, {K: 'z', D: time.Second}, {K: 's', N: p.M}}
		victims = append(victims, sim.Add(v))
	}
	srv := sim.NewServer()
	net := &Net{E: e, Srv: srv}
	net.startServe("serve0", b)
	cc := goat.NewClientConn(a, clientName(0), ServerID)
	net.CCs = []*goat.ClientConn{cc}
	// the victims first: their requests are on the server before the connection backs up
	for _, v := range victims {
		v := v
		e.Go(fmt.Sprintf("caller.c%d", v.Spec.ID), func() { sim.RunCall(cc, v) })
	}
	e.NoAutoAdvance = true
	rr := e.Drive(nil)
	e.NoAutoAdvance = false
	if rr == Crashed || rr == StepLimit {
		return
	}
	e.Go("caller.early", func() { sim.RunCall(cc, er) })
	if rr := e.Settle(); rr == Crashed || rr == StepLimit {
		return
	}
	e.Note("nontrivial")
	const prop = "C02"
	site := "websocket.early-return"
	if p.Cancel {
		site = "websocket.cancel"
		e.Note("fault.ctx.cancel")
	} else {
		e.Note("fault.handler.abandon")
		if er.CFinalSet && er.CFinal != io.EOF {
			e.Violate(prop, "success-reported-failed", site+".self", "the early stream's handler returned nil; its caller's RecvMsg ended with %v", er.CFinal)
		}
	}
	for _, v := range victims {
		id := v.Spec.ID
		if !v.Returned {
			e.Violate(prop, "hang", site, "stream %d, multiplexed with the early one, has not completed\n%s", id, e.WaitGraph())
			continue
		}
		if v.HInvoked == 1 && v.HReturned && v.HRetErr == nil && v.CFinalSet && v.CFinal != io.EOF {
			e.Violate(prop, "success-reported-failed", site, "stream %d completed successfully on the server (its handler sent %d messages and returned nil, nobody cancelled it); its caller received %d of them and then %v - the end of another stream on the connection closed the WebSocket", id, v.HSent, len(v.CGot), v.CFinal)
		} else if v.CFinalSet && v.CFinal == io.EOF && len(v.CGot) != p.M {
			e.Violate(prop, "client-recv-count", site, "stream %d: io.EOF after %d of %d messages", id, len(v.CGot), p.M)
		} else if !v.HReturned || v.HRetErr != nil {
			e.Violate(prop, "success-reported-failed", site, "stream %d: its handler was disturbed (returned=%v err=%v) although only another stream of the connection ended", id, v.HReturned, v.HRetErr)
		}
	}
}

func init() {
	Register(&Family{Name: "c02.ws", Props: []string{"C02"}, New: func() any { return &C02WSParams{} }, Gen: genC02WS, Exec: execC02WS,
		ShrinkKeys: []string{}, Faulty: true, FaultKinds: []string{"handler.abandon", "ctx.cancel"}})
}
