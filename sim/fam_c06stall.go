package verifsim

import (
	"context"
	"fmt"
	"math/rand/v2"
	"time"

	"github.com/avos-io/goat/gen/goatorepo"
)

// C06 (c): the trailer under back-pressure. A raw peer opens a streaming call
// with a grpc-timeout, never resets it and keeps the connection alive, but
// accepts nothing for a while (the server-to-peer link is a stalled rendezvous
// link, so the connection's single writer sits in a transport Write). The
// handler answers and returns while the writer is stuck, so its trailer has to
// wait; the call's deadline passes during that wait (or before the handler
// returns, or not at all). Whatever the order: once the peer reads again, the
// per-id server-to-client history ends with exactly one trailer carrying a status.

type C06StallParams struct {
	Links     []LinkCfg `json:"links"`
	Kind      int       `json:"kind"`       // server-streaming or bidi
	TimeoutMs int       `json:"timeout_ms"` // grpc-timeout of the call (0: none)
	M         int       `json:"m"`          // messages the handler sends before it returns
	WorkMs    int       `json:"work_ms"`    // the handler works this long (fake clock) before it returns
	StallMs   int       `json:"stall_ms"`   // how long the peer accepts nothing
	Fail      bool      `json:"fail"`       // the handler returns an error status
	Busy      bool      `json:"busy,omitempty"` // the connection's writer is already stuck with the reply of a unary call when the stream's handler first sends
}

func genC06Stall(g *rand.Rand, tier string) any {
	p := &C06StallParams{Links: drawLinks(g, 2), Kind: []int{KSStream, KBidi}[g.IntN(2)]}
	p.Links[0].Cap = -1
	p.Links[1].Cap = 0 // server -> peer: a write returns only once the peer has read
	p.TimeoutMs = []int{0, 20, 100, 100, 500}[g.IntN(5)]
	p.M = g.IntN(3)
	p.WorkMs = []int{0, 0, 50, 300}[g.IntN(4)]
	p.StallMs = []int{10, 200, 200, 1000}[g.IntN(4)]
	p.Fail = g.IntN(4) == 0
	p.Busy = g.IntN(3) == 0
	return p
}

func execC06Stall(e *Env, pp any) {
	p := pp.(*C06StallParams)
	kind := p.Kind
	if kind != KSStream && kind != KBidi {
		kind = KBidi
	}
	sim := NewSim(e)
	cs := &CallSpec{ID: 7, Kind: kind, MsgLen: 12, HSendN: p.M}
	if kind == KSStream {
		cs.CSendN = 1
		cs.HProg = append(cs.HProg, Op{K: 'r'})
	}
	// the handler sets response headers first; they leave with whatever the first
	// response envelope turns out to be (C04)
	hdrMD := map[string][]string{"x-stall": {"a", "b"}, "x-stall-bin": {"\x00\xff"}}
	cs.HProg = append(cs.HProg, Op{K: 'H', MD: hdrMD})
	if p.M > 0 {
		cs.HProg = append(cs.HProg, Op{K: 's', N: p.M})
	}
	if p.WorkMs > 0 {
		cs.HProg = append(cs.HProg, Op{K: 'z', D: time.Duration(p.WorkMs) * time.Millisecond})
	}
	if p.Fail {
		cs.HStatus = &StatusSpec{Code: 9, Msg: "precondition"}
	}
	r := sim.Add(cs)
	srv := sim.NewServer()
	lc := func(i int) LinkCfg {
		if i < len(p.Links) {
			return p.Links[i]
		}
		return LinkCfg{Cap: -1}
	}
	l1 := lc(1)
	l1.Cap = 0
	a, b := e.NewConn("c0", lc(0), l1)
	net := &Net{E: e, Srv: srv}
	sr := net.startServe("serve0", b)
	b.Out.Stall()
	e.Note("fault.link.stall")
	rctx, cancel := context.WithCancel(context.Background())
	e.OnTeardown(cancel)
	var got []*Rpc
	e.Go("raw.reader", func() {
		for {
			m, err := a.Read(rctx)
			if err != nil {
				return
			}
			histMu.Lock()
			got = append(got, m)
			histMu.Unlock()
		}
	})
	e.Go("raw.writer", func() {
		h := &goatorepo.RequestHeader{Method: methodNames[kind], Source: "raw", Destination: ServerID,
			Headers: []*goatorepo.KeyValue{{Key: CallKey, Value: "7"}}}
		if p.TimeoutMs > 0 {
			h.Headers = append(h.Headers, &goatorepo.KeyValue{Key: "grpc-timeout", Value: fmt.Sprintf("%dm", p.TimeoutMs)})
		}
		if p.Busy {
			// answered at once; its reply occupies the connection's writer for as long as the peer reads nothing
			hu := &goatorepo.RequestHeader{Method: methodNames[KUnary], Source: "raw", Destination: ServerID}
			a.Write(rctx, &Rpc{Id: 2, Header: hu, Body: bytesBody([]byte("busy"))})
			e.Pt("raw.send")
		}
		a.Write(rctx, &Rpc{Id: 1, Header: h})
		h2 := &goatorepo.RequestHeader{Method: methodNames[kind], Source: "raw", Destination: ServerID}
		if kind == KSStream {
			e.Pt("raw.send")
			a.Write(rctx, &Rpc{Id: 1, Header: h2, Body: bytesBody(sim.cmsg(cs, 0))})
		}
		e.Pt("raw.send")
		a.Write(rctx, &Rpc{Id: 1, Header: h2, Status: &goatorepo.ResponseStatus{}, Trailer: &goatorepo.Trailer{}})
	})
	// the peer accepts nothing for StallMs of simulated time, then drains
	e.NoAutoAdvance = true
	if rr := e.Drive(nil); rr == Crashed || rr == StepLimit {
		return
	}
	e.NoAutoAdvance = false
	step := time.Duration(max(p.StallMs, 1)) * time.Millisecond / 4
	for i := 0; i < 4; i++ {
		e.Advance(step)
		e.NoAutoAdvance = true
		if rr := e.Drive(nil); rr == Crashed || rr == StepLimit {
			return
		}
		e.NoAutoAdvance = false
	}
	returnedDuringStall := r.HReturned
	b.Out.Unstall()
	if rr := e.Settle(); rr == Crashed || rr == StepLimit {
		return
	}
	e.Note("nontrivial")
	if returnedDuringStall {
		e.Note("stall.handler-returned-while-writer-stuck")
	}
	if p.TimeoutMs > 0 && p.TimeoutMs < p.StallMs {
		e.Note("stall.deadline-passed-while-stalled")
	}
	const prop = "C06"
	if r.HInvoked != 1 {
		e.Violate(prop, "handler-not-run", "server.stall", "the stream's handler ran %d times", r.HInvoked)
		return
	}
	if !r.HReturned {
		e.Violate(prop, "hang", "server.stall", "the handler has not returned after the peer started reading again\n%s", e.WaitGraph())
		return
	}
	if sr.Returned {
		return // the connection ended: no obligation left
	}
	histMu.Lock()
	resp := append([]*Rpc(nil), got...)
	histMu.Unlock()
	trailers, afterTrailer := 0, 0
	for _, m := range resp {
		if m.GetId() != 1 {
			continue
		}
		if trailers > 0 && m.GetReset_() == nil {
			afterTrailer++
		}
		if m.GetTrailer() != nil {
			trailers++
			if m.GetStatus() == nil {
				e.Violate(prop, "trailer-without-status", "server.stall", "the stream's trailer carries no status")
			}
		}
	}
	// C04: the headers the handler set arrive with the first response envelope of the
	// stream, whether that is a message or - when every send failed - the final status
	for _, m := range resp {
		if m.GetId() != 1 || m.GetReset_() != nil {
			continue
		}
		gh, err := toMD(m.GetHeader().GetHeaders())
		if err != nil {
			e.Violate("C04", "response-header", "server.failed-send", "undecodable response header: %v", err)
		} else if d := mdEqual(mdOf(hdrMD), gh); d != "" {
			e.Violate("C04", "response-header-lost", "server.failed-send", "the handler set response headers and sent %d messages (the sends blocked behind the stalled writer, timeout %d ms); the first response envelope the peer received (%s) does not carry them: %s", p.M, p.TimeoutMs, shape(m), d)
		} else {
			e.Note("stall.headers-with-first-envelope." + shape(m))
		}
		break
	}
	if trailers == 0 {
		e.Violate(prop, "missing-trailer", "server.deadline-under-backpressure", "the handler returned (%d messages sent, timeout %d ms, peer stalled %d ms), the peer never reset the stream and the connection is alive, but no trailer was ever emitted for it (%d envelopes received)", p.M, p.TimeoutMs, p.StallMs, len(resp))
	} else if trailers > 1 || afterTrailer > 0 {
		e.Violate(prop, "after-trailer", "server.stall", "%d trailers / %d envelopes after the trailer on one stream id", trailers, afterTrailer)
	}
}

func init() {
	Register(&Family{Name: "c06.stall", ShrinkKeys: []string{"m"}, Props: []string{"C06", "C04"}, New: func() any { return &C06StallParams{} }, Gen: genC06Stall, Exec: execC06Stall,
		Faulty: true, FaultKinds: []string{"link.stall", "ctx.deadline"}})
}
