package verifsim

import (
	"net/http"
	"time"
	"context"
	"fmt"

	goat "github.com/avos-io/goat"
)

// Topologies.
const (
	TopoDirect = iota
	TopoProxy
	TopoDemux
	TopoProxyDemux
	numTopos
)

// TopoWS: direct, but every connection is the library's own WebSocket transport
// (goat.NewGoatOverWebsocket over real coder/websocket code on an in-memory pipe)
// on both sides, with no harness link in between: no wire taps, no link faults; the
// RPC-level oracles apply unchanged. Not among the kinds drawn by g.IntN(numTopos).
const TopoWS = numTopos

// TopoHTTP: direct, over the library's HTTP transport: every client owns a GoatOverHttp
// instance and dials the server's; the server's instance hands each new peer to a Serve.
// POSTs travel through an in-memory RoundTripper (a scheduling point each); idle
// timeouts are set to an hour. No wire taps, no link faults.
const TopoHTTP = numTopos + 1

var topoNames = []string{"direct", "proxy", "demux", "proxy+demux", "websocket", "http"}

// TopoSpec is the drawn topology of a run.
type TopoSpec struct {
	Kind    int       `json:"kind"`
	Clients int       `json:"clients"`
	Links   []LinkCfg `json:"links"` // consumed in creation order; missing entries default to unbounded/byref/racy
}

// ServeRec records one Serve call.
type ServeRec struct {
	Name       string
	Returned   bool
	ReturnEv   int
	Err        error
	Cancel     context.CancelFunc
	Ctx        context.Context // the context handed to Serve
	ClientEnd  *End // the client-side end of the server's connection (direct topology)
	ServerEnd  *End
}

// Net is the wiring of a run.
type Net struct {
	E       *Env
	Spec    TopoSpec
	Srv     *goat.Server
	CCs     []*goat.ClientConn
	CEnds   []*End // client-side ends (what the ClientConn reads/writes)
	Serves  []*ServeRec
	Proxy   *goat.Proxy
	ProxyCancel context.CancelFunc
	Demux   *goat.Demux
	nextCfg int
	Disconnects []string
}

func (n *Net) cfg() LinkCfg {
	if n.nextCfg < len(n.Spec.Links) {
		c := n.Spec.Links[n.nextCfg]
		n.nextCfg++
		return c
	}
	n.nextCfg++
	return LinkCfg{Cap: -1}
}

func clientName(i int) string { return fmt.Sprintf("cli%d", i) }

// startServe runs srv.Serve on end in a harness task.
func (n *Net) startServe(name string, end goat.RpcReadWriter) *ServeRec {
	e := n.E
	ctx, cancel := context.WithCancel(context.Background())
	sr := &ServeRec{Name: name, Cancel: cancel, Ctx: ctx}
	if en, ok := end.(*End); ok {
		sr.ServerEnd = en
	}
	e.OnTeardown(cancel)
	n.Serves = append(n.Serves, sr)
	e.Go(name, func() {
		err := n.Srv.Serve(ctx, end)
		histMu.Lock()
		sr.Err = err
		sr.Returned = true
		histMu.Unlock()
		sr.ReturnEv = e.Log("serve.ret", name, 0, errStr(err))
	})
	return sr
}

// Build wires clients to the server according to the topology.
func Build(e *Env, spec TopoSpec, srv *goat.Server, copts func(i int) []goat.DialOption) *Net {
	n := &Net{E: e, Spec: spec, Srv: srv}
	if spec.Clients <= 0 {
		spec.Clients = 1
		n.Spec.Clients = 1
	}
	opts := func(i int) []goat.DialOption {
		if copts == nil {
			return nil
		}
		return copts(i)
	}
	switch spec.Kind {
	case TopoDirect:
		for i := 0; i < spec.Clients; i++ {
			a, b := e.NewConn(fmt.Sprintf("c%d", i), n.cfg(), n.cfg())
			sr := n.startServe(fmt.Sprintf("serve%d", i), b)
			sr.ClientEnd = a
			n.CEnds = append(n.CEnds, a)
			n.CCs = append(n.CCs, goat.NewClientConn(a, clientName(i), ServerID, opts(i)...))
		}
	case TopoWS:
		for i := 0; i < spec.Clients; i++ {
			c, s, ok := wsPair(e, true)
			if !ok {
				e.Note("ws.setup.failed")
				a, b := e.NewConn(fmt.Sprintf("c%d", i), LinkCfg{Cap: -1}, LinkCfg{Cap: -1})
				sr := n.startServe(fmt.Sprintf("serve%d", i), b)
				sr.ClientEnd = a
				n.CCs = append(n.CCs, goat.NewClientConn(a, clientName(i), ServerID, opts(i)...))
				continue
			}
			n.startServe(fmt.Sprintf("serve%d", i), goat.NewGoatOverWebsocket(s))
			n.CCs = append(n.CCs, goat.NewClientConn(goat.NewGoatOverWebsocket(c), clientName(i), ServerID, opts(i)...))
		}
	case TopoHTTP:
		rt := &memRoundTripper{e: e, hosts: map[string]*goat.GoatOverHttp{}, CtxErr: true}
		old := http.DefaultTransport
		http.DefaultTransport = rt
		e.OnTeardown(func() { http.DefaultTransport = old })
		srcMap := func(src string) (string, error) { return "addr-" + src, nil }
		tctx, tcancel := context.WithCancel(context.Background())
		e.OnTeardown(tcancel)
		hopts := []goat.GoatOverHttpOption{goat.WithConnectionCleanupInterval(time.Hour), goat.WithConnectionTimeout(2 * time.Hour)}
		k := 0
		seenPeer := map[string]int{}
		B := goat.NewGoatOverHttp(func(id string, rw goat.RpcReadWriter) {
			// runs on a goat goroutine
			histMu.Lock()
			name := fmt.Sprintf("hserve%d", k)
			k++
			seenPeer[id]++
			dup := seenPeer[id] > 1
			histMu.Unlock()
			if dup {
				// idle timeouts are hours away: a second "new connection" for a peer that
				// has one splits that client's envelopes over two server connections
				for _, prop := range []string{"C01", "C05"} {
					e.Violate(prop, "duplicate-connection", "http.retrieve", "the server's HTTP transport announced a new connection for %s twice", id)
				}
			}
			ctx, cancel := context.WithCancel(context.Background())
			sr := &ServeRec{Name: name, Cancel: cancel, Ctx: ctx}
			e.OnTeardown(cancel)
			histMu.Lock()
			n.Serves = append(n.Serves, sr)
			histMu.Unlock()
			err := n.Srv.Serve(ctx, rw)
			histMu.Lock()
			sr.Err = err
			sr.Returned = true
			histMu.Unlock()
			sr.ReturnEv = e.Log("serve.ret", name, 0, errStr(err))
		}, srcMap, hopts...)
		rt.hosts["addr-"+ServerID] = B
		e.OnTeardown(B.Cancel)
		for i := 0; i < spec.Clients; i++ {
			A := goat.NewGoatOverHttp(func(string, goat.RpcReadWriter) {}, srcMap, hopts...)
			rt.hosts["addr-"+clientName(i)] = A
			e.OnTeardown(A.Cancel)
			n.CCs = append(n.CCs, goat.NewClientConn(&untilTeardown{inner: A.NewConnection("addr-" + ServerID), end: tctx}, clientName(i), ServerID, opts(i)...))
		}
	case TopoProxy:
		// clients and one server connection per client are all attached to one
		// proxy; each client talks to its own server name srv (single client)
		// or, with several clients, the server side is demultiplexed (TopoProxyDemux).
		// one client only (several clients need the server side demultiplexed:
		// TopoProxyDemux); extra clients of a shrunk scenario are ignored
		pctx, pcancel := context.WithCancel(context.Background())
		e.OnTeardown(pcancel)
		n.ProxyCancel = pcancel
		n.Proxy = goat.NewProxy(pctx, "proxy", func(id string) (goat.RpcReadWriter, error) {
			return nil, fmt.Errorf("no dial for %s", id)
		}, nil, func(id string, reason error) {
			histMu.Lock()
			n.Disconnects = append(n.Disconnects, id)
			histMu.Unlock()
		})
		ca, cb := e.NewConn("c0", n.cfg(), n.cfg())
		sa, sb := e.NewConn("s0", n.cfg(), n.cfg())
		n.Proxy.AddClient(clientName(0), cb)
		n.Proxy.AddClient(ServerID, sa)
		e.Go("proxy.serve", func() { n.Proxy.Serve() })
		n.startServe("serve0", sb)
		n.CEnds = append(n.CEnds, ca)
		n.CCs = append(n.CCs, goat.NewClientConn(ca, clientName(0), ServerID, opts(0)...))
	case TopoDemux, TopoProxyDemux:
		// clients -> (proxy | harness fan) -> one shared connection -> Demux keyed
		// by source -> one Serve per client.
		shA, shB := e.NewConn("sh", n.cfg(), n.cfg())
		dctx, dcancel := context.WithCancel(context.Background())
		e.OnTeardown(dcancel)
		k := 0
		n.Demux = goat.NewDemux(dctx, shB, func(r *goat.Rpc) string {
			return r.GetHeader().GetSource()
		}, func(rw goat.RpcReadWriter) {
			// runs on a goat goroutine
			histMu.Lock()
			name := fmt.Sprintf("dserve%d", k)
			k++
			histMu.Unlock()
			ctx, cancel := context.WithCancel(context.Background())
			sr := &ServeRec{Name: name, Cancel: cancel}
			e.OnTeardown(cancel)
			histMu.Lock()
			n.Serves = append(n.Serves, sr)
			histMu.Unlock()
			err := n.Srv.Serve(ctx, rw)
			histMu.Lock()
			sr.Err = err
			sr.Returned = true
			histMu.Unlock()
			sr.ReturnEv = e.Log("serve.ret", name, 0, errStr(err))
		})
		e.Go("demux.run", func() { n.Demux.Run() })
		if spec.Kind == TopoProxyDemux {
			pctx, pcancel := context.WithCancel(context.Background())
			e.OnTeardown(pcancel)
			n.ProxyCancel = pcancel
			n.Proxy = goat.NewProxy(pctx, "proxy", func(id string) (goat.RpcReadWriter, error) {
				return nil, fmt.Errorf("no dial for %s", id)
			}, nil, func(id string, reason error) {
				histMu.Lock()
				n.Disconnects = append(n.Disconnects, id)
				histMu.Unlock()
			})
			n.Proxy.AddClient(ServerID, shA)
			for i := 0; i < spec.Clients; i++ {
				ca, cb := e.NewConn(fmt.Sprintf("c%d", i), n.cfg(), n.cfg())
				n.Proxy.AddClient(clientName(i), cb)
				n.CEnds = append(n.CEnds, ca)
				n.CCs = append(n.CCs, goat.NewClientConn(ca, clientName(i), ServerID, opts(i)...))
			}
			e.Go("proxy.serve", func() { n.Proxy.Serve() })
		} else {
			// harness fan-in / fan-out in place of a proxy
			var cbs []*End
			for i := 0; i < spec.Clients; i++ {
				ca, cb := e.NewConn(fmt.Sprintf("c%d", i), n.cfg(), n.cfg())
				cbs = append(cbs, cb)
				n.CEnds = append(n.CEnds, ca)
				n.CCs = append(n.CCs, goat.NewClientConn(ca, clientName(i), ServerID, opts(i)...))
			}
			fctx, fcancel := context.WithCancel(context.Background())
			e.OnTeardown(fcancel)
			for i, cb := range cbs {
				cb := cb
				e.Go(fmt.Sprintf("fan.in%d", i), func() {
					for {
						r, err := cb.Read(fctx)
						if err != nil {
							return
						}
						e.Pt("fan.in")
						if shA.Write(fctx, r) != nil {
							return
						}
					}
				})
			}
			e.Go("fan.out", func() {
				for {
					r, err := shA.Read(fctx)
					if err != nil {
						return
					}
					dst := r.GetHeader().GetDestination()
					e.Pt("fan.out")
					for i, cb := range cbs {
						if clientName(i) == dst {
							if cb.Write(fctx, r) != nil {
								return
							}
						}
					}
				}
			})
		}
	}
	return n
}

// AllLinks returns every link of the run (for wire oracles).
func (e *Env) AllLinks() []*Link { return e.links }

// untilTeardown passes everything through; its Reads also end when the run is torn down
// (an HTTP connection has no Close the application could call, and a ClientConn never
// cancels the context it reads under).
type untilTeardown struct {
	inner goat.RpcReadWriter
	end   context.Context
}

func (u *untilTeardown) Read(ctx context.Context) (*goat.Rpc, error) {
	c, cancel := context.WithCancel(ctx)
	stop := context.AfterFunc(u.end, cancel)
	defer stop()
	defer cancel()
	return u.inner.Read(c)
}

func (u *untilTeardown) Write(ctx context.Context, r *goat.Rpc) error { return u.inner.Write(ctx, r) }
