//go:build verif

// Package simhook is added to avos-io/goat only through a build-time overlay
// (go build -overlay) by /verif. It is the seam through which the
// deterministic simulator owns goat's goroutine scheduling: every
// synchronisation operation of goat's own code is preceded by a call into
// this package (inserted by /verif/sim/cmd/instr), and in lock-step mode
// that call parks the goroutine until the simulator's driver releases it.
//
// Modes:
//
//	Off      - every call returns at once; Order returns nil (rewritten
//	           selects degenerate to the original). Default.
//	Lockstep - goroutines park at every yield; lock ownership is modelled.
//	Chaos    - no parking, no shared state: yields randomly Gosched/spin.
//	           Used with the race detector (C15).
package simhook

import (
	"fmt"
	"math/rand/v2"
	"runtime"
	"sort"
	"sync"
	"sync/atomic"
	"unsafe"
)

const (
	Off int32 = iota
	Lockstep
	Chaos
)

var mode atomic.Int32

// Mode returns the current mode.
func Mode() int32 { return mode.Load() }

// Task is one goroutine known to the simulator.
type Task struct {
	Name  string
	Index int
	Goat  bool // started by goat's own code (a `go` statement in /repo)

	gid  uint64
	wake chan struct{}

	// All fields below are protected by World.mu.
	Parked    bool
	Site      string
	Wants     uintptr // lock the task is about to acquire (0: none)
	WantsRead bool
	Done      bool
	Started   bool
	LastSite  string // last yield site passed (for leak / wedge reports)
	Yields    int
	spawns    map[string]int
	Holding   []uintptr
}

// Crash is a panic that escaped a goroutine (in production: process death).
type Crash struct {
	Task  string
	Value string
	Stack string
}

type lockState struct {
	writer  *Task
	anon    bool
	readers int
}

// World is the per-run state of the lock-step engine.
type World struct {
	mu      sync.Mutex
	tasks   []*Task
	byGid   map[uint64]*Task
	locks   map[uintptr]*lockState
	events  map[string]int
	crashes []Crash
	abort   bool

	// OrderFn supplies the seeded permutation for rule R2b.
	MapOrderFn func(site string, n int) []int // seeded permutation for a map range with n keys (nil: sorted order)
	OrderFn func(site string, n int) []int
	// Tracked objects (R5), in creation order.
	tracked []Tracked

	TotalYields    int64
	Unregistered   int64
	rootSpawns     map[string]int
	LocksLeftHeld int64 // locks still held by tasks when they ended
	LockModelMiss  int64
	EventsDisabled bool
}

type Tracked struct {
	Kind string
	Obj  any
}

var world atomic.Pointer[World]

// NewWorld installs a fresh world and switches to lock-step mode.
func NewWorld() *World {
	w := &World{
		byGid:      map[uint64]*Task{},
		locks:      map[uintptr]*lockState{},
		events:     map[string]int{},
		rootSpawns: map[string]int{},
	}
	world.Store(w)
	mode.Store(Lockstep)
	return w
}

// EndWorld switches hooks off again.
func EndWorld() {
	mode.Store(Off)
	world.Store(nil)
}

// SetChaos switches to chaos mode with the given seed (C15).
func SetChaos(seed uint64) {
	chaosSeed.Store(seed)
	world.Store(nil)
	mode.Store(Chaos)
}

// ChaosCrash, if set, receives panics that escape goroutines started by goat
// in chaos mode (in production they terminate the process).
var ChaosCrash func(site, value, stack string)

var chaosSeed atomic.Uint64

func curGid() uint64 {
	var buf [64]byte
	n := runtime.Stack(buf[:], false)
	// "goroutine 123 ["
	var id uint64
	for i := len("goroutine "); i < n; i++ {
		c := buf[i]
		if c < '0' || c > '9' {
			break
		}
		id = id*10 + uint64(c-'0')
	}
	return id
}

func (w *World) current() *Task {
	gid := curGid()
	w.mu.Lock()
	t := w.byGid[gid]
	w.mu.Unlock()
	return t
}

func key(p any) uintptr {
	return uintptr((*[2]unsafe.Pointer)(unsafe.Pointer(&p))[1])
}

func chaosYield(site string) {
	// No shared counter here: an atomic read-modify-write on one address at every yield
	// would be a happens-before edge between all goroutines at all their synchronisation
	// points, and the race detector would see almost everything as ordered (it did, until
	// round 14). The runtime's per-thread generator involves no memory the detector
	// watches; the seed is written once per run and only loaded here.
	n := rand.Uint64()
	h := n*0x9E3779B97F4A7C15 ^ chaosSeed.Load()
	for i := 0; i < len(site); i++ {
		h = (h ^ uint64(site[i])) * 0x100000001b3
	}
	h ^= h >> 29
	switch h % 8 {
	case 0, 1, 2:
		runtime.Gosched()
	case 3:
		for i := 0; i < int(h>>8)%200; i++ {
			runtime.Gosched()
		}
	case 4:
		x := 0
		for i := 0; i < int(h>>8)%2000; i++ {
			x += i
		}
		_ = x
	}
}

func (w *World) park(t *Task, site string, wants uintptr, read bool) {
	w.mu.Lock()
	if w.abort {
		w.mu.Unlock()
		return
	}
	t.Parked = true
	t.Site = site
	t.Wants = wants
	t.WantsRead = read
	t.Yields++
	w.TotalYields++
	w.mu.Unlock()
	<-t.wake
	w.mu.Lock()
	t.LastSite = site
	w.mu.Unlock()
}

// Yield is a scheduling point before a synchronisation operation.
func Yield(site string) {
	switch mode.Load() {
	case Off:
		return
	case Chaos:
		chaosYield(site)
		return
	}
	w := world.Load()
	if w == nil {
		return
	}
	t := w.current()
	if t == nil {
		atomic.AddInt64(&w.Unregistered, 1)
		return
	}
	w.park(t, site, 0, false)
}

// Acquire is the yield before X.Lock(): the task is enabled only while the
// lock is free according to the ownership table, so the real Lock that
// follows never blocks.
func Acquire(site string, p any) {
	switch mode.Load() {
	case Off:
		return
	case Chaos:
		chaosYield(site)
		return
	}
	w := world.Load()
	if w == nil {
		return
	}
	t := w.current()
	if t == nil {
		atomic.AddInt64(&w.Unregistered, 1)
		return
	}
	w.park(t, site, key(p), false)
}

// RAcquire is Acquire for RLock.
func RAcquire(site string, p any) {
	switch mode.Load() {
	case Off:
		return
	case Chaos:
		chaosYield(site)
		return
	}
	w := world.Load()
	if w == nil {
		return
	}
	t := w.current()
	if t == nil {
		atomic.AddInt64(&w.Unregistered, 1)
		return
	}
	w.park(t, site, key(p), true)
}

// Own records that the calling task now holds the lock.
func Own(p any) {
	if mode.Load() != Lockstep {
		return
	}
	w := world.Load()
	if w == nil {
		return
	}
	t := w.current()
	k := key(p)
	w.mu.Lock()
	ls := w.locks[k]
	if ls == nil {
		ls = &lockState{}
		w.locks[k] = ls
	}
	if ls.writer != nil || ls.anon || ls.readers > 0 {
		w.LockModelMiss++
	}
	if t == nil {
		ls.anon = true
	} else {
		ls.writer = t
		t.Holding = append(t.Holding, k)
	}
	w.mu.Unlock()
}

// ROwn records a read lock.
func ROwn(p any) {
	if mode.Load() != Lockstep {
		return
	}
	w := world.Load()
	if w == nil {
		return
	}
	k := key(p)
	w.mu.Lock()
	ls := w.locks[k]
	if ls == nil {
		ls = &lockState{}
		w.locks[k] = ls
	}
	ls.readers++
	w.mu.Unlock()
}

// Release records that the lock was released.
func Release(p any) {
	if mode.Load() != Lockstep {
		return
	}
	w := world.Load()
	if w == nil {
		return
	}
	k := key(p)
	w.mu.Lock()
	if ls := w.locks[k]; ls != nil {
		if ls.writer != nil {
			h := ls.writer.Holding
			for i := len(h) - 1; i >= 0; i-- {
				if h[i] == k {
					ls.writer.Holding = append(h[:i], h[i+1:]...)
					break
				}
			}
		}
		ls.writer = nil
		ls.anon = false
	}
	w.mu.Unlock()
}

// RRelease records that a read lock was released.
func RRelease(p any) {
	if mode.Load() != Lockstep {
		return
	}
	w := world.Load()
	if w == nil {
		return
	}
	k := key(p)
	w.mu.Lock()
	if ls := w.locks[k]; ls != nil && ls.readers > 0 {
		ls.readers--
	}
	w.mu.Unlock()
}

// Event counts that a select clause (or other named branch) was taken.
func Event(site string) {
	if mode.Load() != Lockstep {
		return
	}
	w := world.Load()
	if w == nil {
		return
	}
	w.mu.Lock()
	w.events[site]++
	w.mu.Unlock()
}

// Order returns the seeded polling order for a select with n clauses, or nil.
func Order(site string, n int) []int {
	if mode.Load() != Lockstep {
		return nil
	}
	w := world.Load()
	if w == nil || w.OrderFn == nil {
		return nil
	}
	w.mu.Lock()
	ab := w.abort
	w.mu.Unlock()
	if ab {
		return nil
	}
	if w.current() == nil {
		return nil
	}
	return w.OrderFn(site, n)
}

func (w *World) newTask(parent *Task, site string, goat bool, explicit string) *Task {
	w.mu.Lock()
	defer w.mu.Unlock()
	name := explicit
	if name == "" {
		var k int
		if parent != nil {
			if parent.spawns == nil {
				parent.spawns = map[string]int{}
			}
			k = parent.spawns[site]
			parent.spawns[site] = k + 1
			name = fmt.Sprintf("%s/%s#%d", parent.Name, site, k)
		} else {
			k = w.rootSpawns[site]
			w.rootSpawns[site] = k + 1
			name = fmt.Sprintf("~/%s#%d", site, k)
		}
	}
	t := &Task{Name: name, Index: len(w.tasks), Goat: goat, wake: make(chan struct{}, 1)}
	w.tasks = append(w.tasks, t)
	return t
}

func (w *World) adopt(t *Task) {
	gid := curGid()
	w.mu.Lock()
	t.gid = gid
	t.Started = true
	w.byGid[gid] = t
	w.mu.Unlock()
}

func (w *World) finish(t *Task, r any) {
	var st string
	if r != nil {
		buf := make([]byte, 16<<10)
		buf = buf[:runtime.Stack(buf, false)]
		st = string(buf)
	}
	w.mu.Lock()
	if r != nil {
		w.crashes = append(w.crashes, Crash{Task: t.Name, Value: fmt.Sprint(r), Stack: st})
	}
	t.Done = true
	t.Parked = false
	delete(w.byGid, t.gid)
	// A task that ends (or crashes) while it holds a lock leaves the real mutex locked:
	// the model keeps it held too, so that whoever wants it next parks here, under the
	// scheduler, and the run ends in a verdict (a hang with the lock's last owner in the
	// wait-for graph) - forgetting the lock would let the waiter through to the real,
	// for-ever-locked mutex and the run would end in the watchdog. Another goroutine may
	// still release it (sync.Mutex allows that): Release clears it whoever calls.
	if len(t.Holding) > 0 {
		w.LocksLeftHeld += int64(len(t.Holding))
	}
	w.mu.Unlock()
}

// Go replaces `go f(...)` in goat's code.
func Go(site string, fn func()) {
	switch mode.Load() {
	case Off:
		go fn()
		return
	case Chaos:
		go func() {
			defer func() {
				if r := recover(); r != nil {
					if h := ChaosCrash; h != nil {
						buf := make([]byte, 16<<10)
						buf = buf[:runtime.Stack(buf, false)]
						h(site, fmt.Sprint(r), string(buf))
						return
					}
					panic(r)
				}
			}()
			chaosYield(site)
			fn()
		}()
		return
	}
	w := world.Load()
	if w == nil {
		go fn()
		return
	}
	spawn(w, site, true, "", fn)
}

// GoNamed starts a harness task with an explicit, stable name.
func GoNamed(name string, fn func()) *Task {
	w := world.Load()
	if w == nil || mode.Load() != Lockstep {
		go fn()
		return nil
	}
	return spawn(w, "", false, name, fn)
}

func spawn(w *World, site string, goat bool, explicit string, fn func()) *Task {
	parent := w.current()
	t := w.newTask(parent, site, goat, explicit)
	go func() {
		w.adopt(t)
		defer func() {
			r := recover()
			w.finish(t, r)
		}()
		w.park(t, "start", 0, false)
		fn()
	}()
	return t
}

// Handle is a task prepared by the parent for a goroutine some library will
// start (errgroup.Group.Go).
type Handle struct {
	w *World
	t *Task
}

// Prepare names a task for a goroutine that a library is about to start.
func Prepare(site string) *Handle {
	if mode.Load() != Lockstep {
		return nil
	}
	w := world.Load()
	if w == nil {
		return nil
	}
	return &Handle{w: w, t: w.newTask(w.current(), site, true, "")}
}

// Adopt registers the calling goroutine as the prepared task and parks it
// once; the returned function must be deferred (it recovers panics).
func Adopt(h *Handle) func() {
	if h == nil {
		return func() {}
	}
	h.w.adopt(h.t)
	h.w.park(h.t, "start", 0, false)
	return func() {
		r := recover()
		h.w.finish(h.t, r)
	}
}

// Track registers an object of interest (R5).
func Track(kind string, obj any) {
	if mode.Load() != Lockstep {
		return
	}
	w := world.Load()
	if w == nil {
		return
	}
	w.mu.Lock()
	w.tracked = append(w.tracked, Tracked{kind, obj})
	w.mu.Unlock()
}

// ---------------------------------------------------------------------------
// Driver-side API.

// TaskView is a snapshot of a task.
type TaskView struct {
	T        *Task
	Name     string
	Goat     bool
	Parked   bool
	Enabled  bool
	Site     string
	LastSite string
	Done     bool
	Started  bool
	WaitsFor string // owner of the wanted lock, if held
}

// Snapshot returns all tasks in creation order. Must be called when the
// system is quiescent (after synctest.Wait).
func (w *World) Snapshot() []TaskView {
	if w == nil {
		return nil
	}
	w.mu.Lock()
	defer w.mu.Unlock()
	out := make([]TaskView, 0, len(w.tasks))
	for _, t := range w.tasks {
		v := TaskView{T: t, Name: t.Name, Goat: t.Goat, Parked: t.Parked, Site: t.Site,
			LastSite: t.LastSite, Done: t.Done, Started: t.Started}
		if t.Parked {
			v.Enabled = true
			if t.Wants != 0 {
				if ls := w.locks[t.Wants]; ls != nil {
					if t.WantsRead {
						if ls.writer != nil || ls.anon {
							v.Enabled = false
						}
					} else if ls.writer != nil || ls.anon || ls.readers > 0 {
						v.Enabled = false
					}
					if !v.Enabled {
						if ls.writer != nil {
							v.WaitsFor = ls.writer.Name
						} else {
							v.WaitsFor = "?"
						}
					}
				}
			}
		}
		out = append(out, v)
	}
	return out
}

// Enabled appends the parked, enabled tasks (creation order) to dst.
func (w *World) Enabled(dst []*Task) []*Task {
	if w == nil {
		return dst
	}
	w.mu.Lock()
	defer w.mu.Unlock()
	for _, t := range w.tasks {
		if !t.Parked || t.Done {
			continue
		}
		if t.Wants != 0 {
			if ls := w.locks[t.Wants]; ls != nil {
				if t.WantsRead {
					if ls.writer != nil || ls.anon {
						continue
					}
				} else if ls.writer != nil || ls.anon || ls.readers > 0 {
					continue
				}
			}
		}
		dst = append(dst, t)
	}
	return dst
}

// Resume releases one parked task.
func (w *World) Resume(t *Task) {
	w.mu.Lock()
	t.Parked = false
	w.mu.Unlock()
	t.wake <- struct{}{}
}

// Abort releases every parked task and turns all hooks into no-ops for the
// remainder of the run (teardown).
func (w *World) Abort() {
	w.mu.Lock()
	w.abort = true
	var wake []*Task
	for _, t := range w.tasks {
		if t.Parked {
			t.Parked = false
			wake = append(wake, t)
		}
	}
	w.mu.Unlock()
	for _, t := range wake {
		t.wake <- struct{}{}
	}
}

// Crashes returns recorded crashes.
func (w *World) Crashes() []Crash {
	if w == nil {
		return nil
	}
	w.mu.Lock()
	defer w.mu.Unlock()
	return append([]Crash(nil), w.crashes...)
}

// Events returns a copy of the event counters, keys sorted.
func (w *World) Events() ([]string, map[string]int) {
	if w == nil {
		return nil, nil
	}
	w.mu.Lock()
	defer w.mu.Unlock()
	m := make(map[string]int, len(w.events))
	ks := make([]string, 0, len(w.events))
	for k, v := range w.events {
		m[k] = v
		ks = append(ks, k)
	}
	sort.Strings(ks)
	return ks, m
}

// EventCount returns one counter.
func (w *World) EventCount(site string) int {
	if w == nil {
		return 0
	}
	w.mu.Lock()
	defer w.mu.Unlock()
	return w.events[site]
}

// TrackedObjects returns tracked objects of a kind, in creation order.
func (w *World) TrackedObjects(kind string) []any {
	if w == nil {
		return nil
	}
	w.mu.Lock()
	defer w.mu.Unlock()
	var out []any
	for _, tr := range w.tracked {
		if tr.Kind == kind {
			out = append(out, tr.Obj)
		}
	}
	return out
}

// Stats returns yield counters.
func (w *World) Stats() (yields, unregistered, lockMiss int64, tasks int) {
	if w == nil {
		return
	}
	w.mu.Lock()
	defer w.mu.Unlock()
	return w.TotalYields, atomic.LoadInt64(&w.Unregistered), w.LockModelMiss, len(w.tasks)
}

// TrackRet registers v under kind and returns it (rule R5).
func TrackRet[T any](kind string, v T) T {
	Track(kind, v)
	return v
}

// SortedKeys returns the keys of m in ascending order (rule R6: goat's own
// map iterations are made order-deterministic in instrumented builds).
func SortedKeys[M ~map[K]V, K interface {
	~int | ~int32 | ~int64 | ~uint | ~uint32 | ~uint64 | ~string
}, V any](m M) []K {
	ks := make([]K, 0, len(m))
	for k := range m {
		ks = append(ks, k)
	}
	sort.Slice(ks, func(i, j int) bool { return ks[i] < ks[j] })
	return ks
}

// RangeKeys returns the keys of m in the order this run iterates them (rule
// R6): sorted, then permuted by the seeded scheduler (MapOrderFn) in lock-step
// mode, so that Go's randomised map iteration order is one more recorded,
// replayable choice instead of a hidden source of nondeterminism - and is not
// silently pinned to one friendly order either.
func RangeKeys[M ~map[K]V, K interface {
	~int | ~int32 | ~int64 | ~uint | ~uint32 | ~uint64 | ~string
}, V any](site string, m M) []K {
	ks := SortedKeys(m)
	if len(ks) < 2 || mode.Load() != Lockstep {
		return ks
	}
	w := world.Load()
	if w == nil || w.MapOrderFn == nil || w.current() == nil {
		return ks
	}
	w.mu.Lock()
	ab := w.abort
	w.mu.Unlock()
	if ab {
		return ks
	}
	p := w.MapOrderFn(site, len(ks))
	if len(p) != len(ks) {
		return ks
	}
	out := make([]K, len(ks))
	for i, j := range p {
		if j < 0 || j >= len(ks) {
			return ks
		}
		out[i] = ks[j]
	}
	return out
}
