//go:build verif && verif_fallback

package goat

import (
	"context"
	"time"
)

// Fallback accessors: compiled in when the tree under test no longer has the fields the
// ordinary accessors name (a registry turned into another data structure, a renamed
// field): the simulator still builds, and the oracles that need these values answer
// "unknown" instead of the whole check answering "infrastructure trouble".
const VerifFallback = true

func VerifClientRegistered(cc *ClientConn) int          { return -3 }
func VerifClientCtx(cc *ClientConn) context.Context     { return nil }
func VerifServerCtx(obj any) context.Context            { return nil }
func VerifServerStreams(obj any) int                    { return -3 }
func VerifProxyClients(obj any) []string                { return nil }
func VerifProxyConn(obj any, name string) RpcReadWriter { return nil }
func VerifDemuxConns(obj any) int                       { return -3 }
func VerifParseGrpcTimeout(s string) (time.Duration, bool) { return 0, false }
func VerifClientContainerTotal(cc *ClientConn) int      { return VerifContainerTotal(cc) }
