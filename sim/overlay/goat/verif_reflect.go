//go:build verif

package goat

import "reflect"

// VerifContainerTotal: the number of elements in every map, slice and channel that is a
// field of the struct obj points to (nested structs included, pointers not followed).
// Names no field: whatever a connection object remembers is counted. Call at a
// quiescent point only.
func VerifContainerTotal(obj any) int {
	v := reflect.ValueOf(obj)
	for v.Kind() == reflect.Pointer || v.Kind() == reflect.Interface {
		if v.IsNil() {
			return 0
		}
		v = v.Elem()
	}
	return containerTotal(v, 0)
}

func containerTotal(v reflect.Value, depth int) int {
	if depth > 4 {
		return 0
	}
	switch v.Kind() {
	case reflect.Map, reflect.Slice, reflect.Chan:
		return v.Len()
	case reflect.Struct:
		n := 0
		for i := 0; i < v.NumField(); i++ {
			n += containerTotal(v.Field(i), depth+1)
		}
		return n
	}
	return 0
}

