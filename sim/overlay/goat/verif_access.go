//go:build verif && !verif_fallback

package goat

import (
	"context"
	"time"
)

// VerifClientRegistered: registered calls/streams of a client connection.
func VerifClientRegistered(cc *ClientConn) int { return cc.mp.VerifRegistered() }

// VerifClientCtx: the client connection's own context (what per-call hooks register on).
func VerifClientCtx(cc *ClientConn) context.Context { return cc.mp.VerifCtx() }

// VerifServerCtx: the connection context of a tracked server handler object.
func VerifServerCtx(obj any) context.Context {
	if h, ok := obj.(*handler); ok {
		return h.ctx
	}
	return nil
}

// VerifServerStreams: registered streams of a tracked server handler object
// (simhook kind "server.handler"), -1 if the lock is held, -2 if obj is not one.
func VerifServerStreams(obj any) int {
	h, ok := obj.(*handler)
	if !ok {
		return -2
	}
	if !h.mu.TryLock() {
		return -1
	}
	defer h.mu.Unlock()
	return len(h.streams)
}

// VerifProxyClients: names of the connections a tracked proxy currently holds.
func VerifProxyClients(obj any) []string {
	p, ok := obj.(*Proxy)
	if !ok {
		return nil
	}
	if !p.mutex.TryLock() {
		return []string{"<locked>"}
	}
	defer p.mutex.Unlock()
	var out []string
	for k := range p.clients {
		out = append(out, k)
	}
	return out
}

// VerifProxyConn returns the connection a proxy holds under name (nil if none).
func VerifProxyConn(obj any, name string) RpcReadWriter {
	p, ok := obj.(*Proxy)
	if !ok {
		return nil
	}
	if !p.mutex.TryLock() {
		return nil
	}
	defer p.mutex.Unlock()
	if c := p.clients[name]; c != nil {
		return c.conn
	}
	return nil
}

// VerifDemuxConns: number of logical connections a tracked demux holds.
func VerifDemuxConns(obj any) int {
	d, ok := obj.(*Demux)
	if !ok {
		return -2
	}
	if !d.conns.TryLock() {
		return -1
	}
	defer d.conns.Unlock()
	return len(d.conns.value)
}

// VerifParseGrpcTimeout exposes the timeout parser (C08 cross-check only).
func VerifParseGrpcTimeout(s string) (time.Duration, bool) { return parseGrpcTimeout(s) }


// VerifFallback: false when these accessors (which name fields of the library's types) are compiled in.
const VerifFallback = false

// VerifClientContainerTotal: the same for a client connection's multiplexer.
func VerifClientContainerTotal(cc *ClientConn) int { return VerifContainerTotal(cc.mp) }
