//go:build verif && verif_fallback

package client

import "context"

func (rm *RpcMultiplexer) VerifRegistered() int         { return -3 }
func (rm *RpcMultiplexer) VerifCtx() context.Context    { return nil }
