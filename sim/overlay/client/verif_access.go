//go:build verif && !verif_fallback

package client

import "context"

// VerifRegistered returns the number of registered response handlers, or -1
// if the registry lock is held (only called at quiescent points).
func (rm *RpcMultiplexer) VerifRegistered() int {
	if !rm.mutex.TryLock() {
		return -1
	}
	defer rm.mutex.Unlock()
	return len(rm.handlers)
}

// VerifCtx is the multiplexer's own context (cancelled when the connection ends).
func (rm *RpcMultiplexer) VerifCtx() context.Context { return rm.ctx }
